package harness

import (
	"fmt"
	"sort"

	"cqosverif/explore"
	"cqosverif/vrt"
	"cqosverif/vrt/vcontext"

	prio1 "github.com/akramarenkov/cqos/priority"
	prio2 "github.com/akramarenkov/cqos/v2/priority"
	div2 "github.com/akramarenkov/cqos/v2/priority/divider"
	simple2 "github.com/akramarenkov/cqos/v2/priority/simple"
	types2 "github.com/akramarenkov/cqos/v2/priority/types"
)

// Closed systems for the priority disciplines (C01, C02, C05, C06, C07, C15,
// C16, C17, C19): the real discipline of one of four variants
//
//	v2  v2/priority            s2  v2/priority/simple
//	v1  priority               s1  priority.Simple
//
// with inputs prefilled (n <= cap) or fed by producer threads (cap 0, n > cap),
// closed by a closer thread at an arbitrary point, and one of two environments:
//
//	pool: K handler threads  recv -> (yields) -> release   (as in the README)
//	rr:   one receiver thread that always receives and one releaser thread
//	      that releases any held item (Choose over the held priorities)
//
// For the simple disciplines the handlers are library threads and the
// environment is the Handle callback.

// Item is a globally unique item: (origin input index, sequence number).
type Item struct {
	In  int
	Seq int
	// Live is true for every item a producer wrote; the zero value of the type
	// (what a receive from a closed channel yields) is recognisably not an item.
	Live bool
}

func (it Item) VrtKey() uint64 {
	if !it.Live {
		return 0x17d
	}
	return vrt.Mix(0x17e, uint64(it.In), uint64(it.Seq))
}

func (it Item) String() string { return fmt.Sprintf("%d.%d", it.In, it.Seq) }

type divFn func(priorities []uint, dividend uint, distribution map[uint]uint)

func lowDivider(priorities []uint, dividend uint, distribution map[uint]uint) {
	if len(priorities) == 0 || distribution == nil {
		return
	}
	n := uint(len(priorities))
	base := dividend / n
	for _, p := range priorities {
		distribution[p] += base
	}
	distribution[priorities[len(priorities)-1]] += dividend - base*n
}

// strayDivider obeys the sum rule but hands one unit (when there is more than
// one per listed priority) to a priority value that has no input - a legal, if
// odd, custom divider: the unit is simply never used.
func strayDivider(priorities []uint, dividend uint, distribution map[uint]uint) {
	if len(priorities) == 0 || distribution == nil {
		return
	}
	rest := dividend
	if dividend > uint(len(priorities)) {
		distribution[strayKey]++
		rest--
	}
	div2.Fair(priorities, rest, distribution)
}

const strayKey = 999

// tableDivider ignores the list it is given and always spreads the dividend
// evenly over a fixed table: the configured priorities plus one value that has
// no input. It obeys the sum rule (the only obligation C01 puts on a divider).
func tableDivider(table []uint) divFn {
	return func(priorities []uint, dividend uint, distribution map[uint]uint) {
		if distribution == nil {
			return
		}
		div2.Fair(table, dividend, distribution)
	}
}

func dividerOf(name string) divFn {
	switch name {
	case "stray":
		return strayDivider
	case "fair":
		return divFn(div2.Fair)
	case "rate":
		return divFn(div2.Rate)
	case "low":
		return lowDivider
	}
	panic("unknown divider " + name)
}

// v1 dividers have a different signature (return the map, create it if nil).
func v1Divider(name string) prio1.Divider {
	switch name {
	case "stray":
		return func(priorities []uint, dividend uint, distribution map[uint]uint) map[uint]uint {
			if len(priorities) == 0 {
				return nil
			}
			if distribution == nil {
				distribution = make(map[uint]uint, len(priorities))
			}
			strayDivider(priorities, dividend, distribution)
			return distribution
		}
	case "fair":
		return prio1.FairDivider
	case "rate":
		return prio1.RateDivider
	case "low":
		return func(priorities []uint, dividend uint, distribution map[uint]uint) map[uint]uint {
			if len(priorities) == 0 {
				return nil
			}
			if distribution == nil {
				distribution = make(map[uint]uint, len(priorities))
			}
			lowDivider(priorities, dividend, distribution)
			return distribution
		}
	}
	panic("unknown divider " + name)
}

type prioMon struct {
	f     failer
	cfg   Cfg
	w     *vrt.World
	P     []uint // configured priorities, descending; index = input index
	H     uint
	share map[uint]uint

	ins  []*vrt.ChanState
	out  *vrt.ChanState
	fb   *vrt.ChanState // v1: harness-owned feedback
	errc *vrt.ChanState

	reg              map[*vrt.ChanState]uint // channel -> priority it is registered under (C17)
	origin           map[int]*vrt.ChanState  // item origin -> channel it was written to
	written          []int                   // per origin
	nextSeq          []int                   // per origin: next sequence number expected on the output
	inflight         map[uint]int
	total            int // items in flight
	maxTotal         int
	delivered        int
	released         int
	inClosed         []bool
	outClosed        bool
	errClosed        bool
	errSeen          []error
	handling         int // simple: Handle calls entered and not left
	handled          map[Item]int
	stolen           map[Item]bool // mode "thief": items taken by another reader of an input
	stopReturned     bool
	gracefulReturned bool
	faulted          int // index of the divider call that misbehaved (0 = none)
	faultKind        int
	sentAfterFault   int
	divCalls         int
	fullStates       int
	saturated        bool
	satEnded         bool
	condAt           int64 // virtual time at which 'drained and released' became true (-1: not yet)
	removed          map[*vrt.ChanState]bool
	pendingReg       map[*vrt.ChanState]uint
	inHand           *Item
	scriptLog        []string
	lastFrom         []int
	order            []string // delivery order along the current path (not part of the key)
}

func (m *prioMon) Hash() uint64 {
	h := vrt.Mix(uint64(m.total), uint64(m.handling), uint64(m.faulted), uint64(m.faultKind), uint64(m.sentAfterFault))
	if m.cfg.Mode == "mixed" {
		// runs of unbounded length: only the positions of the finite inputs are state
		h = vrt.Mix(h, hashInts(m.nextSeq), hashInts(m.written))
	} else if m.cfg.Mode != "endless" {
		// in endless mode runs have unbounded length: the counters below grow for
		// ever and carry no information the oracles of that mode use
		h = vrt.Mix(h, uint64(m.delivered), uint64(m.released), hashInts(m.nextSeq), hashInts(m.written))
	}
	ks := make([]uint, 0, len(m.inflight))
	for k := range m.inflight {
		ks = append(ks, k)
	}
	sort.Slice(ks, func(i, j int) bool { return ks[i] < ks[j] })
	for _, k := range ks {
		h = vrt.Mix(h, uint64(k), uint64(m.inflight[k]))
	}
	b := uint64(0)
	for i, f := range []bool{m.outClosed, m.errClosed, m.stopReturned, m.gracefulReturned, m.saturated} {
		if f {
			b |= 1 << uint(i)
		}
	}
	for i, c := range m.inClosed {
		if c {
			b |= 1 << uint(8+i)
		}
	}
	h = vrt.Mix(h, b, uint64(len(m.errSeen)))
	if m.inHand != nil {
		h = vrt.Mix(h, m.inHand.VrtKey())
	}
	for it := range m.stolen {
		h += vrt.Mix(0x57, it.VrtKey())
	}
	if m.condAt >= 0 {
		age := m.w.Clock - m.condAt
		if age > promptBound+1 {
			age = promptBound + 1
		}
		h = vrt.Mix(h, 0xc07d, uint64(age))
	}
	for c := range m.removed {
		if m.removed[c] {
			h += vrt.Mix(c.ID, 0x4e)
		}
	}
	for c, p := range m.pendingReg {
		h += vrt.Mix(c.ID, uint64(p), 0x4f)
	}
	if len(m.reg) > 0 {
		rs := make([]uint64, 0, len(m.reg))
		for c, p := range m.reg {
			rs = append(rs, vrt.Mix(c.ID, uint64(p)))
		}
		sort.Slice(rs, func(i, j int) bool { return rs[i] < rs[j] })
		for _, r := range rs {
			h = vrt.Mix(h, r)
		}
	}
	return h
}

func (m *prioMon) inputIndex(ch *vrt.ChanState) int {
	for i, c := range m.ins {
		if c == ch {
			return i
		}
	}
	return -1
}

func decode(v any) (uint, Item, bool) {
	switch x := v.(type) {
	case types2.Prioritized[Item]:
		return x.Priority, x.Item, true
	case prio1.Prioritized[Item]:
		return x.Priority, x.Item, true
	}
	return 0, Item{}, false
}

// drainedAndReleased: every registered input is closed and empty and nothing is in flight.
func (m *prioMon) drainedAndReleased() bool {
	if m.total != 0 || m.inHand != nil {
		return false
	}
	for i, c := range m.ins {
		if _, registered := m.reg[c]; !registered {
			continue
		}
		if !m.inClosed[i] || c.Len() != 0 {
			return false
		}
	}
	return len(m.reg) > 0
}

const promptBound = 1000 // ns of virtual time; the unchanged code needs none

func (m *prioMon) OnEvent(w *vrt.World, ev *vrt.Event) {
	defer func() {
		if m.condAt < 0 && m.drainedAndReleased() {
			m.condAt = w.Clock
		}
	}()
	if ev.Kind == vrt.EvClose && ev.Ch == m.errc && m.condAt >= 0 && m.faulted == 0 && (m.cfg.Disc == "v2" || m.cfg.Disc == "s2") {
		if w.Clock-m.condAt > promptBound {
			m.f.fail("C07", "all inputs were closed and drained and everything was released at %d ns, but the discipline terminated only at %d ns: not promptly", m.condAt, w.Clock)
		}
	}
	if ev.Kind == vrt.EvRecv && m.saturated && ev.T.Lib {
		if i := m.inputIndex(ev.Ch); i >= 0 && ev.Ch.Len() == 0 {
			// the input ran empty: "data waiting continuously" no longer holds
			m.saturated = false
			m.satEnded = true
		}
	}
	if ev.Kind == vrt.EvRecv && ev.T.Lib && ev.OK {
		if i := m.inputIndex(ev.Ch); i >= 0 {
			if m.removed[ev.Ch] {
				m.f.fail("C17", "the discipline read from a channel after RemoveInput / replacement of it had returned (input %d)", i)
			}
			if it, ok := ev.Val.(Item); ok {
				if m.inHand != nil && !isRough(m.cfg) {
					m.f.fail("C02", "item %v was read from its input but never written to the output (next item %v read)", *m.inHand, it)
					m.f.fail("C17", "item %v was read from its input but never written to the output (next item %v read)", *m.inHand, it)
				}
				m.inHand = &it
			}
		}
	}
	switch ev.Kind {
	case vrt.EvClose:
		if i := m.inputIndex(ev.Ch); i >= 0 {
			m.inClosed[i] = true
			return
		}
		if ev.Ch == m.errc && m.cfg.Disc == "s2" && m.handling != 0 {
			// v2 simple: Err() closes only after every handled item has been released, and
			// a handler releases after Handle has returned
			m.f.fail("C19", "Err() was closed while %d Handle calls are still running: a handler goroutine outlives the termination", m.handling)
		}
		if ev.Ch == m.out || ev.Ch == m.errc {
			// C07: termination only when drained and released
			for i, c := range m.ins {
				if m.removed[c] {
					continue
				}
				if _, registered := m.reg[c]; !registered {
					continue
				}
				if (!m.inClosed[i] || c.Len() != 0) && m.faulted == 0 {
					m.f.fail("C07", "discipline closed %s although input %d (priority %d) is not closed and drained", ev.Ch, i, m.reg[c])
				}
			}
			if m.total != 0 && m.faulted == 0 {
				m.f.fail("C07", "discipline closed %s although %d delivered items have not been released (in flight per priority %v)", ev.Ch, m.total, m.inflight)
				if m.cfg.Script > 0 {
					m.f.fail("C17", "after add/remove operations the discipline terminated (closed %s) although %d delivered items have not been fed back (in flight per priority %v, script %v)", ev.Ch, m.total, m.inflight, m.scriptLog)
				}
			}
			if m.total != 0 && m.faulted != 0 {
				m.f.fail("C15", "after a divider fault the discipline closed %s although %d delivered items have not been released", ev.Ch, m.total)
			}
			if ev.Ch == m.out {
				m.outClosed = true
			} else {
				m.errClosed = true
			}
		}
	case vrt.EvSend:
		if _, _, isOut := decode(ev.Val); isOut && ev.T.Lib {
			if m.out == nil {
				m.out = ev.Ch
			}
			m.onDeliver(w, ev)
			return
		}
		if i := m.inputIndex(ev.Ch); i >= 0 {
			return
		}
		if p, ok := ev.Val.(uint); ok && (m.fb == nil || ev.Ch == m.fb) && ev.Ch != m.out {
			// release completed
			m.inflight[p]--
			m.total--
			m.released++
			if m.inflight[p] < 0 {
				// a release for an item that was never delivered (e.g. a phantom Handle call)
				m.f.fail("C02", "priority %d released although no item of it is in flight: something was handled that was never delivered", p)
				m.f.fail("C01", "priority %d released although no item of it is in flight (the in-flight accounting is broken)", p)
				m.inflight[p] = 0
				m.total++
			}
		}
	}
}

func (m *prioMon) onDeliver(w *vrt.World, ev *vrt.Event) {
	p, it, ok := decode(ev.Val)
	if !ok {
		w.Fail("harness: unexpected value on the output: %v", ev.Val)
		return
	}
	if m.stopReturned {
		m.f.fail("C16", "item %v written to the output after Stop() returned", it)
	}
	if m.faulted != 0 {
		m.sentAfterFault++
		m.f.fail("C15", "item %v delivered after divider call %d returned a distribution whose added total differs from the dividend", it, m.faulted)
	}
	m.inflight[p]++
	m.total++
	m.delivered++
	m.order = append(m.order, it.String())
	if m.total > m.maxTotal {
		m.maxTotal = m.total
	}
	if uint(m.total) > m.H {
		m.f.fail("C01", "%d items in processing (delivered and not released) exceed HandlersQuantity %d; in flight per priority %v", m.total, m.H, m.inflight)
		if m.faulted != 0 {
			m.f.fail("C15", "capacity exceeded after a divider fault: %d > %d", m.total, m.H)
		}
	}
	if uint(m.total) == m.H {
		m.fullStates++
	}
	// C02 / C17: tag and order
	if !it.Live {
		m.f.fail("C02", "the zero value of the item type was delivered: nothing like it was ever written to an input")
		return
	}
	if it.In < 0 || it.In >= len(m.nextSeq) {
		m.f.fail("C02", "item %v was never written to any input", it)
		return
	}
	m.inHand = nil
	ch := m.origin[it.In]
	want, known := m.reg[ch]
	if pp, pending := m.pendingReg[ch]; pending && pp == p {
		want, known = pp, true
	}
	if !known {
		m.f.fail("C17", "item %v delivered from a channel that is not registered", it)
	} else if want != p {
		if m.cfg.Script > 0 {
			m.f.fail("C17", "item %v of the channel registered for priority %d delivered with priority %d", it, want, p)
		}
		m.f.fail("C02", "item %v of the input registered for priority %d delivered with priority %d", it, want, p)
	}
	rough := isRough(m.cfg)
	if m.stolen[it] {
		m.f.fail("C02", "item %v delivered although another reader of the input had taken it: delivered twice", it)
	}
	for m.stolen[Item{it.In, m.nextSeq[it.In], true}] {
		m.nextSeq[it.In]++ // taken by the other reader of that input: not due any more
	}
	if m.cfg.Mode == "endless" || (it.In < len(m.cfg.N) && m.cfg.N[it.In] < 0) {
		// identical payloads: only tag, capacity and shares are checked
	} else if it.Seq != m.nextSeq[it.In] && !(rough && it.Seq > m.nextSeq[it.In] && it.Seq < m.written[it.In]) {
		// under a rough stop an item read but not delivered is lost: what is
		// delivered must still be an in-order duplicate-free subsequence (C16)
		clause := "C02"
		if rough {
			clause = "C16"
		}
		if it.Seq < m.nextSeq[it.In] {
			m.f.fail(clause, "item %v delivered twice or out of order (next expected sequence number of its input is %d)", it, m.nextSeq[it.In])
		} else if it.Seq >= m.written[it.In] {
			m.f.fail(clause, "item %v delivered but never written", it)
		} else {
			m.f.fail(clause, "item %v delivered while item %d.%d of the same input was skipped", it, it.In, m.nextSeq[it.In])
		}
	}
	m.nextSeq[it.In] = it.Seq + 1
	// C05: per priority share under saturation
	if m.saturated {
		if uint(m.inflight[p]) > m.share[p] {
			m.f.fail("C05", "under saturation priority %d has %d items in flight, more than its share %d of %d handlers (shares %v, in flight %v)", p, m.inflight[p], m.share[p], m.H, m.share, m.inflight)
		}
	}
}

// ---- harness-side blocking primitive ----

type cond struct {
	id    uint64
	ready func() bool
}

func (c *cond) Ready(t *vrt.Thread) bool { return c.ready() }
func (c *cond) Acquire(t *vrt.Thread)    {}
func (c *cond) KeyID() uint64            { return c.id }

func init() { Register("prio", buildPrio) }

func buildPrio(c Cfg) *explore.Scenario {
	// sleeps and tickers below a microsecond are "no time" (the disciplines poll with
	// 1 ns); anything longer takes virtual time, which the promptness clause of C07 measures
	opt := vrt.Options{Clock: vrt.ClockLapse, EagerBelow: 1000, KeyHistory: c.KeyHistory, MaxSteps: c.MaxSteps, ResetDepth: libResetDepth}
	if opt.MaxSteps == 0 {
		opt.MaxSteps = 4000
	}
	return &explore.Scenario{Name: "prio", Config: c.String(), Opt: opt, Build: func(w *vrt.World) *explore.Instance { return newPrio(c, w) }}
}

type prioEnv struct {
	getOut  func() // lazyacc: called by every consumer before its first receive
	recv    func() (uint, Item, bool)
	release func(p uint)
}

func newPrio(c Cfg, w *vrt.World) *explore.Instance {
	m := &prioMon{cfg: c, w: w, P: c.P, H: c.H, condAt: -1, inflight: map[uint]int{}, reg: map[*vrt.ChanState]uint{}, origin: map[int]*vrt.ChanState{}, handled: map[Item]int{}, stolen: map[Item]bool{}, removed: map[*vrt.ChanState]bool{}, pendingReg: map[*vrt.ChanState]uint{}}
	m.f = failer{c, w}
	np := len(c.P)
	nx := 0
	if c.Script > 0 {
		nx = 2 // two extra channels for the add / replace operations
	}
	m.written = make([]int, np+nx)
	m.nextSeq = make([]int, np+nx)
	m.inClosed = make([]bool, np+nx)
	w.Monitors = append(w.Monitors, m)
	// oracle share: the configured divider applied by the harness
	m.share = map[uint]uint{}
	if c.Div == "table" {
		tableDivider(append([]uint{c.P[0] + 1}, c.P...))(c.P, c.H, m.share)
	} else {
		dividerOf(c.Div)(c.P, c.H, m.share)
	}
	m.saturated = c.Mode == "saturate" || c.Mode == "endless"

	var newErr error
	capOf := func(i int) int {
		if len(c.Cap) == 0 {
			return 0
		}
		if i < len(c.Cap) {
			return c.Cap[i]
		}
		return c.Cap[len(c.Cap)-1]
	}
	nOf := func(i int) int {
		if len(c.N) == 0 {
			return 0
		}
		if i < len(c.N) {
			return c.N[i]
		}
		return c.N[len(c.N)-1]
	}
	endlessIn := func(i int) bool { return c.Mode == "endless" || nOf(i) < 0 }
	totalItems := 0
	for i := 0; i < np; i++ {
		if !endlessIn(i) {
			totalItems += nOf(i)
		}
	}
	var v1 v1Ctl
	var held []uint // rr environment: priorities of received, unreleased items
	receiverDone := false
	var divw *dividerWrap

	body := func() {
		inputs := make([]chan Item, np)
		inMap := map[uint]<-chan Item{}
		var prefilled []int
		for i, p := range c.P {
			ch := vrt.MakeChan[Item](capOf(i))
			inputs[i] = ch
			st := vrt.NameChan[Item](ch, fmt.Sprintf("in%d", p))
			m.ins = append(m.ins, st)
			m.origin[i] = st
			if c.Mode == "fromempty" {
				// v1: the discipline is created without inputs; they are added later
			} else {
				m.reg[st] = p
				inMap[p] = ch
			}
			if endlessIn(i) {
				vrt.Endless(ch, Item{i, 0, true})
				continue
			}
			if n := nOf(i); n <= capOf(i) {
				items := make([]Item, n)
				for k := range items {
					items[k] = Item{i, k, true}
				}
				vrt.Prefill(ch, items...)
				m.written[i] = n
				if c.Mode == "preclosed" {
					vrt.CloseNow(ch)
					m.inClosed[i] = true
				} else if c.Mode == "idleopen" && n == 0 {
					// stays open and silent for ever
				} else {
					prefilled = append(prefilled, i)
				}
			}
		}
		inner := divFn(nil)
		if c.Div == "table" {
			inner = tableDivider(append([]uint{c.P[0] + 1}, c.P...))
		} else {
			inner = dividerOf(c.Div)
		}
		divw = &dividerWrap{m: m, inner: inner, fault: c.Fault, lax: c.Div == "table"}
		var env prioEnv
		switch c.Disc {
		case "v2":
			d, err := prio2.New(prio2.Opts[Item]{Divider: divw.v2, HandlersQuantity: c.H, Inputs: inMap})
			if err != nil {
				newErr = err
				return
			}
			var out <-chan types2.Prioritized[Item]
			lazy := false
			if c.LazyAcc {
				// nobody has called an accessor yet: the monitors learn the channels from
				// the object, every consumer obtains them itself, concurrently
				m.out, m.errc = vrt.PeekChan(d, "output", "out"), vrt.PeekChan(d, "err", "err")
				lazy = m.out != nil && m.errc != nil
			}
			if lazy {
				env.getOut = func() {
					o := d.Output()
					if vrt.StateOf(o) != m.out {
						m.f.fail("C02", "Output() returned a channel other than the one the discipline writes to")
					}
					out = o
				}
				vrt.Spawn("observer", func() {
					env.getOut()
					if vrt.StateOf(d.Err()) != m.errc {
						m.f.fail("C07", "Err() returned a channel other than the one the discipline reports on")
					}
				})
			} else {
				out = d.Output()
				m.out = vrt.NameChan(out, "out")
				m.errc = vrt.NameChan(d.Err(), "err")
			}
			env.recv = func() (uint, Item, bool) {
				v, ok := vrt.Recv2(out)
				return v.Priority, v.Item, ok
			}
			env.release = d.Release
			spawnErrReader(m, d.Err)
		case "s2":
			handle := func(it Item) {
				if !it.Live {
					m.f.fail("C02", "Handle invoked with the zero value of the item type: no such item was ever written")
				}
				m.handling++
				m.handled[it]++
				if uint(m.handling) > c.H {
					m.f.fail("C01", "%d concurrent Handle calls exceed HandlersQuantity %d", m.handling, c.H)
				}
				if m.handled[it] > 1 {
					m.f.fail("C02", "Handle invoked %d times for item %v", m.handled[it], it)
				}
				for y := 0; y < c.Yields; y++ {
					vrt.Yield()
				}
				m.handling--
			}
			d, err := simple2.New(simple2.Opts[Item]{Divider: divw.v2, Handle: handle, HandlersQuantity: c.H, Inputs: inMap})
			if err != nil {
				newErr = err
				return
			}
			if c.LazyAcc {
				m.errc = vrt.PeekChan(d, "err", "err")
			}
			if m.errc == nil {
				m.errc = vrt.NameChan(d.Err(), "err")
			} else {
				vrt.Spawn("observer", func() {
					if vrt.StateOf(d.Err()) != m.errc {
						m.f.fail("C07", "Err() returned a channel other than the one the discipline reports on")
					}
				})
			}
			m.out = nil
			spawnErrReader(m, d.Err)
		case "v1":
			output := vrt.MakeChan[prio1.Prioritized[Item]](c.OutCap)
			feedback := vrt.MakeChan[uint](c.FbCap)
			m.out = vrt.NameChan[prio1.Prioritized[Item]](output, "out")
			m.fb = vrt.NameChan[uint](feedback, "feedback")
			o := prio1.Opts[Item]{Divider: divw.v1, Feedback: feedback, HandlersQuantity: c.H, Inputs: inMap, Output: output}
			if c.UserCtx {
				o.Ctx, v1.cancel = newUserCtx()
			} else if c.Stop == "cancel" || c.Stop == "both" || c.Stop == "precancel" || c.Stop == "cancel+graceful" {
				o.Ctx, v1.cancel = vcontext.WithCancel(vcontext.Background())
			}
			if c.Stop == "precancel" {
				v1.cancel() // the context is already cancelled when the discipline is created
			}
			d, err := prio1.New(o)
			if err != nil {
				newErr = err
				return
			}
			v1.graceful, v1.stop = d.GracefulStop, d.Stop
			v1.add = func(ch <-chan Item, p uint) { d.AddInput(ch, p) }
			v1.remove = d.RemoveInput
			m.errc = vrt.NameChan(d.Err(), "err")
			env.recv = func() (uint, Item, bool) {
				v, ok := vrt.Recv2(output)
				return v.Priority, v.Item, ok
			}
			env.release = func(p uint) { vrt.Send(feedback, p) }
			spawnErrReader(m, d.Err)
		case "s1":
			handle := func(ctx vcontext.Context, it Item) {
				if !it.Live {
					m.f.fail("C02", "Handle invoked with the zero value of the item type: no such item was ever written")
				}
				m.handling++
				m.handled[it]++
				if uint(m.handling) > c.H {
					m.f.fail("C01", "%d concurrent Handle calls exceed HandlersQuantity %d", m.handling, c.H)
				}
				if m.handled[it] > 1 {
					m.f.fail("C02", "Handle invoked %d times for item %v", m.handled[it], it)
				}
				if c.Mode == "norelease" {
					// a handler that is busy until told to stop (it honours its context)
					vrt.Recv(ctx.Done())
				} else {
					for y := 0; y < c.Yields; y++ {
						vrt.Yield()
					}
				}
				m.handling--
			}
			o := prio1.SimpleOpts[Item]{Divider: divw.v1, Handle: handle, HandlersQuantity: c.H, Inputs: inMap}
			if c.UserCtx {
				o.Ctx, v1.cancel = newUserCtx()
			} else if c.Stop == "cancel" || c.Stop == "both" || c.Stop == "precancel" || c.Stop == "cancel+graceful" {
				o.Ctx, v1.cancel = vcontext.WithCancel(vcontext.Background())
			}
			if c.Stop == "precancel" {
				v1.cancel()
			}
			d, err := prio1.NewSimple(o)
			if err != nil {
				newErr = err
				return
			}
			v1.graceful, v1.stop = d.GracefulStop, d.Stop
			m.errc = vrt.NameChan(d.Err(), "serr")
			spawnErrReader(m, d.Err)
		default:
			panic("prio harness: unknown discipline " + c.Disc)
		}

		// the caller owns its Inputs map again once the constructor has returned
		for k := range inMap {
			delete(inMap, k)
		}
		inMap[424242] = nil
		// producers for inputs that are not prefilled
		for i := range c.P {
			n := nOf(i)
			if n <= capOf(i) || endlessIn(i) {
				continue
			}
			i := i
			ch := inputs[i]
			vrt.Spawn(fmt.Sprintf("producer%d", c.P[i]), func() {
				for k := 0; k < n; k++ {
					vrt.Mark(uint64(k))
					m.written[i] = k + 1
					vrt.Send(ch, Item{i, k, true})
				}
				vrt.Mark(uint64(n) + 1000)
				if c.Mode != "open" && c.Mode != "saturate" && c.Mode != "alone" {
					vrt.Close(ch)
				}
			})
		}
		if c.Mode == "thief" {
			// ordinary fan-out: another goroutine receives from the highest priority's
			// input channel too (at most two items, at any time)
			vrt.Spawn("thief", func() {
				for i := 0; i < 2; i++ {
					vrt.Mark(uint64(i) + 0x7e1f)
					it, ok := vrt.Recv2(inputs[0])
					if !ok {
						return
					}
					m.stolen[it] = true
				}
				vrt.Mark(0x7e1e)
			})
		}
		// closer for prefilled inputs: closes them in any order at any time
		if len(prefilled) > 0 && c.Mode != "open" && c.Mode != "saturate" && c.Mode != "alone" && c.Mode != "gracefulfirst" && c.Mode != "mixed" {
			vrt.Spawn("closer", func() {
				// fixed order (descending priority, or ascending with Mode closeasc); the
				// scheduler places every close at every point of the run
				left := append([]int(nil), prefilled...)
				if c.Mode == "closeasc" {
					sort.Sort(sort.Reverse(sort.IntSlice(left)))
				}
				for len(left) > 0 {
					vrt.Mark(hashInts(left))
					vrt.Close(inputs[left[0]])
					left = left[1:]
				}
			})
		}
		if c.Disc == "v1" || c.Disc == "s1" {
			m.spawnV1Control(c, &v1, inputs)
		}
		if c.Disc == "s2" || c.Disc == "s1" {
			return
		}
		if c.Mode == "noread" {
			return
		}
		switch c.Env {
		case "pool":
			k := int(c.H)
			if c.Mode == "extra" {
				k++
			}
			for h := 0; h < k; h++ {
				th := vrt.Spawn("handler", func() {
					if env.getOut != nil {
						env.getOut()
					}
					for {
						vrt.Mark(1)
						p, _, ok := env.recv()
						if !ok {
							return
						}
						if c.Mode == "norelease" {
							vrt.Mark(vrt.Mix(4, uint64(p)))
							vrt.Recv(vrt.MakeChan[int](0)) // busy forever, never feeds back
						}
						for y := 0; y < c.Yields; y++ {
							vrt.Mark(vrt.Mix(2, uint64(p), uint64(y)))
							vrt.Yield()
						}
						vrt.Mark(vrt.Mix(3, uint64(p)))
						env.release(p)
					}
				})
				th.KeyName = vrt.HashString("handler-pool") // symmetric threads
			}
		default: // rr
			vrt.Spawn("receiver", func() {
				if env.getOut != nil {
					env.getOut()
				}
				for {
					vrt.Mark(1)
					p, _, ok := env.recv()
					if !ok {
						receiverDone = true
						return
					}
					held = append(held, p)
					sort.Slice(held, func(i, j int) bool { return held[i] < held[j] })
				}
			})
			budget := c.R
			if c.Mode == "alone" {
				break
			}
			vrt.Spawn("releaser", func() {
				cd := &cond{id: 0x4e1, ready: func() bool { return len(held) > 0 || receiverDone }}
				n := 0
				for budget == 0 || n < budget {
					cnt := uint64(n)
					if budget == 0 {
						cnt = 0 // unlimited releases: the count is not state
					}
					vrt.Mark(vrt.Mix(hashUints(held), cnt))
					vrt.Block(cd)
					if len(held) == 0 {
						return
					}
					if c.Mode == "stingy" && vrt.Choose(2) == 1 {
						return // this and all later releases never happen
					}
					// distinct held priorities
					var ds []uint
					for i, p := range held {
						if i == 0 || held[i-1] != p {
							ds = append(ds, p)
						}
					}
					p := ds[vrt.Choose(len(ds))]
					for i, q := range held {
						if q == p {
							held = append(held[:i:i], held[i+1:]...)
							break
						}
					}
					vrt.Mark(vrt.Mix(hashUints(held), cnt, uint64(p), 7))
					env.release(p)
					n++
				}
			})
		}
	}

	inst := &explore.Instance{Body: body}
	inst.Terminal = func(w *vrt.World, out vrt.Outcome) string {
		if newErr != nil {
			return "harness: constructor failed: " + newErr.Error()
		}
		if out == vrt.Spin {
			return c.Prop + ": livelock: " + w.SpinInfo
		}
		return m.terminal(w, out, totalItems-len(m.stolen), divw)
	}
	inst.Goal = func(w *vrt.World) bool {
		if c.Mode == "open" || c.Mode == "saturate" || c.Mode == "alone" || c.Mode == "stingy" || c.Mode == "withhold" || c.Mode == "endless" {
			return true
		}
		if c.Mode == "idleopen" {
			return m.delivered == totalItems
		}
		if c.Mode == "mixed" {
			// some inputs are saturated for ever; every item of the finite inputs that
			// are registered once the script is over is delivered
			if !v1.scriptDone {
				return false
			}
			for i := 0; i < len(m.nextSeq); i++ {
				st := m.origin[i]
				if st == nil {
					continue
				}
				if _, registered := m.reg[st]; !registered || (i < np && endlessIn(i)) {
					continue
				}
				if (i < np && m.nextSeq[i] != nOf(i)) || (i >= np && m.nextSeq[i] != m.written[i]) {
					return false
				}
			}
			return true
		}
		return m.errClosed
	}
	inst.State = func(w *vrt.World) string { return m.stateOracle(w) }
	inst.Observe = func(w *vrt.World) string {
		return fmt.Sprintf("order=%v released=%d max_inflight=%d err=%v", m.order, m.released, m.maxTotal, m.errSeen)
	}
	inst.Project = func(w *vrt.World) string {
		ks := make([]uint, 0, len(m.inflight))
		for k := range m.inflight {
			ks = append(ks, k)
		}
		sort.Slice(ks, func(i, j int) bool { return ks[i] < ks[j] })
		fl := ""
		for _, k := range ks {
			fl += fmt.Sprintf("%d:%d ", k, m.inflight[k])
		}
		return fmt.Sprintf("next=%v written=%v inflight=[%s] released=%d closed=%v out=%v err=%v nerr=%d", m.nextSeq, m.written, fl, m.released, m.inClosed, m.outClosed, m.errClosed, len(m.errSeen))
	}
	inst.Counters = func() map[string]int {
		r := map[string]int{"deliveries": m.delivered, "deliveries_reaching_H_in_flight": m.fullStates, "divider_calls": m.divCalls}
		if m.faulted != 0 {
			r["faults_injected"] = 1
		}
		return r
	}
	return inst
}

func (m *prioMon) terminal(w *vrt.World, out vrt.Outcome, totalItems int, divw *dividerWrap) string {
	c := m.cfg
	if (c.Mode == "open" || c.Mode == "saturate" || c.Mode == "withhold" || c.Mode == "endless" || c.Mode == "mixed") && !(isRough(c) && (c.Disc == "v1" || c.Disc == "s1")) {
		if m.outClosed || m.errClosed {
			// C19: the discipline has announced its termination (it must not have: C07
			// reports that) - whatever the reason, no goroutine of it may stay behind
			return m.libAlive(w)
		}
		return ""
	}
	if c.Mode == "alone" {
		// C06: a priority that is alone in having data is granted all H handlers
		if uint(m.total) != m.H && want(c, "C06") {
			return fmt.Sprintf("C06: only one priority has data (more than H items), nothing is released, but it holds %d of %d handlers (in flight %v)", m.total, m.H, m.inflight)
		}
		return ""
	}
	if c.Mode == "idleopen" {
		if m.delivered != totalItems && want(c, "C06") {
			return fmt.Sprintf("C06: an input stays open and silent; only %d of the %d items written to the other inputs were delivered: %s", m.delivered, totalItems, w.Describe())
		}
		return ""
	}
	if c.Mode == "stingy" {
		// C06: when nothing is in flight and some input has data an item is delivered
		// without any release being needed
		if m.total == 0 && want(c, "C06") {
			for i, ch := range m.ins {
				if ch.Len() > 0 || m.written[i] > m.nextSeq[i] {
					return fmt.Sprintf("C06: nothing is in flight and input %d (priority %d) has data waiting, but nothing is delivered although no release is outstanding: %s", i, m.P[i], w.Describe())
				}
			}
		}
		return ""
	}
	if m.faulted != 0 && !(isRough(c) && (c.Disc == "v1" || c.Disc == "s1")) {
		// C15: after a fault in a round division the discipline reports and terminates
		if !want(c, "C15") {
			if m.errClosed {
				return m.libAlive(w) // C19: error termination must not leave goroutines behind
			}
			return ""
		}
		if !m.errClosed {
			return fmt.Sprintf("C15: after a divider fault (call %d) the discipline did not terminate: %s", m.faulted, w.Describe())
		}
		bad := error(prio2.ErrDividerBad)
		if c.Disc == "v1" || c.Disc == "s1" {
			bad = prio1.ErrDividerBad
		}
		if len(m.errSeen) != 1 || m.errSeen[0] != bad {
			return fmt.Sprintf("C15: after a divider fault (call %d, kind %d) Err() yielded %v instead of exactly ErrDividerBad", m.faulted, m.faultKind, m.errSeen)
		}
		return m.libAlive(w)
	}
	v1 := c.Disc == "v1" || c.Disc == "s1"
	if v1 && isRough(c) {
		// rough termination: Stop()/cancel must have completed, nothing may be left running
		for _, t := range w.Threads {
			if t.Name == "stopper" && !t.Done() {
				return fmt.Sprintf("C16: Stop() did not return: %s", w.Describe())
			}
		}
		if !m.errClosed {
			return fmt.Sprintf("C16: after Stop()/cancel the discipline did not terminate: %s", w.Describe())
		}
		if c.Disc == "s1" && m.handling != 0 {
			return fmt.Sprintf("C16: after Stop()/cancel %d Handle calls are still running", m.handling)
		}
		return m.libAlive(w)
	}
	if v1 {
		for _, t := range w.Threads {
			if t.Name == "graceful" && !t.Done() {
				if want(c, "C07") || want(c, "C06") || want(c, "C17") {
					return fmt.Sprintf("%s: all inputs are closed and drained and every delivered item is fed back (delivered %d of %d, released %d) but GracefulStop() has not returned: %s", c.Prop, m.delivered, totalItems, m.released, w.Describe())
				}
				return fmt.Sprintf("%s: the system stops without terminating (delivered %d of %d items, released %d): %s", c.Prop, m.delivered, totalItems, m.released, w.Describe())
			}
		}
	} else if out != vrt.Done {
		if want(c, "C07") {
			return fmt.Sprintf("C07: all inputs are closed and drained and every delivered item is released (delivered %d of %d, released %d) but the discipline has not terminated: %s", m.delivered, totalItems, m.released, w.Describe())
		}
		return fmt.Sprintf("%s: the system stops without terminating (delivered %d of %d items, released %d): %s", c.Prop, m.delivered, totalItems, m.released, w.Describe())
	}
	if c.Disc == "s2" || c.Disc == "s1" {
		for i := range m.P {
			for k := 0; k < m.written[i]; k++ {
				if m.handled[Item{i, k, true}] != 1 && !m.stolen[Item{i, k, true}] {
					if want(c, "C02") {
						return fmt.Sprintf("C02: Handle was invoked %d times for item %d.%d", m.handled[Item{i, k, true}], i, k)
					}
				}
			}
		}
	} else if c.Script > 0 {
		for idx := 0; idx < len(m.nextSeq); idx++ {
			ch := m.origin[idx]
			if ch == nil {
				continue
			}
			if _, registered := m.reg[ch]; registered && m.nextSeq[idx] != m.written[idx] && (want(c, "C17") || want(c, "C02") || want(c, "C07")) {
				return fmt.Sprintf("%s: GracefulStop() returned but only %d of %d items written to the registered input %d were delivered (script %v)", c.Prop, m.nextSeq[idx], m.written[idx], idx, m.scriptLog)
			}
		}
		if m.inHand != nil && want(c, "C17") {
			return fmt.Sprintf("C17: item %v was read but never delivered", *m.inHand)
		}
		return m.libAlive(w)
	} else if m.delivered != totalItems && want(c, "C02") {
		return fmt.Sprintf("C02: terminated normally but only %d of %d written items were delivered (per input next sequence numbers %v)", m.delivered, totalItems, m.nextSeq)
	}
	if want(c, "C06") && m.delivered != totalItems && c.Disc != "s2" && c.Disc != "s1" {
		return fmt.Sprintf("C06: only %d of %d written items were delivered", m.delivered, totalItems)
	}
	if !m.errClosed && want(c, "C07") {
		return "C07: everything drained and released but the error channel is not closed"
	}
	return m.libAlive(w)
}

func (m *prioMon) libAlive(w *vrt.World) string {
	if !want(m.cfg, "C19") {
		return ""
	}
	for _, t := range w.Threads {
		if t.Lib && !t.Done() {
			return fmt.Sprintf("C19: library goroutine %s is still alive after the discipline terminated: %s", t.Name, w.Describe())
		}
	}
	return ""
}

// stateOracle: C05 "whenever no release is outstanding all handlers are
// occupied": in a saturated configuration, in every state in which the
// discipline is blocked receiving feedback while the feedback channel is empty
// and no handler has a release pending, every priority holds exactly its share.
func (m *prioMon) stateOracle(w *vrt.World) string {
	if !m.saturated || !want(m.cfg, "C05") {
		return ""
	}
	var lib *vrt.Thread
	for _, t := range w.Threads {
		if t.Lib && t.Name == "Discipline.main" {
			lib = t
		}
	}
	if lib == nil || lib.Done() {
		return ""
	}
	// the discipline waits for feedback, the feedback channel is empty, nothing is
	// waiting in the output buffer and no release is in progress
	fbc, ok := lib.PendingPlainRecvEmpty()
	if !ok || fbc == m.out || m.inputIndex(fbc) >= 0 {
		return ""
	}
	if w.AnyPendingSend() || (m.out != nil && m.out.Len() != 0) {
		return ""
	}
	m.fullStates++
	for _, p := range m.cfg.P {
		s := m.share[p]
		if uint(m.inflight[p]) != s {
			return fmt.Sprintf("C05: no release is outstanding and every input has data waiting, but priority %d holds %d handlers instead of its share %d (in flight %v, shares %v, H=%d)", p, m.inflight[p], s, m.inflight, m.share, m.H)
		}
	}
	return ""
}

// ---- divider wrapper: contract monitor and fault injection (C15) ----

type dividerWrap struct {
	m     *prioMon
	inner divFn
	fault bool
	lax   bool
}

func (d *dividerWrap) check(priorities []uint, dividend uint, distribution map[uint]uint, v2 bool) {
	m := d.m
	m.divCalls++
	if len(priorities) > 0 {
		for i, p := range priorities {
			found := false
			for _, q := range m.P {
				if q == p {
					found = true
				}
			}
			for _, extra := range m.extraPriorities() {
				if extra == p {
					found = true
				}
			}
			if !found {
				m.f.fail("C15", "divider called with priority %d that is not configured (priorities %v)", p, priorities)
			}
			if i > 0 && priorities[i-1] <= p {
				m.f.fail("C15", "divider called with priorities %v that are not distinct and sorted from highest to lowest", priorities)
			}
		}
	}
	if dividend > m.H {
		m.f.fail("C15", "divider called with dividend %d exceeding HandlersQuantity %d", dividend, m.H)
	}
	if v2 && distribution == nil {
		m.f.fail("C15", "v2 divider called with a nil distribution")
	}
}

func (m *prioMon) extraPriorities() []uint { return nil }

func (d *dividerWrap) v1(priorities []uint, dividend uint, distribution map[uint]uint) map[uint]uint {
	d.check(priorities, dividend, distribution, false)
	if len(priorities) == 0 {
		return nil
	}
	if distribution == nil {
		distribution = make(map[uint]uint, len(priorities))
		d.inner(priorities, dividend, distribution)
		return distribution
	}
	d.inner(priorities, dividend, distribution)
	d.maybeFault(priorities, dividend, distribution)
	return distribution
}

func (d *dividerWrap) v2(priorities []uint, dividend uint, distribution map[uint]uint) {
	d.check(priorities, dividend, distribution, true)
	d.inner(priorities, dividend, distribution)
	d.maybeFault(priorities, dividend, distribution)
}

// maybeFault: at most one fault per execution; only for calls made from the
// discipline's own thread (round divisions), with a non-empty priority list.
func (d *dividerWrap) maybeFault(priorities []uint, dividend uint, distribution map[uint]uint) {
	m := d.m
	if !d.fault || m.faulted != 0 || len(priorities) == 0 || distribution == nil {
		return
	}
	t := vrt.Cur()
	if t == nil || !t.Lib {
		return
	}
	sum := uint(0)
	for _, v := range distribution {
		sum += v
	}
	switch vrt.Choose(4) {
	case 3: // the excess goes to a key that is not in the list of this call: a configured
		// priority that is absent from it (crowded or without data), else a foreign key
		key := m.cfg.P[0] + 7
		for _, q := range m.cfg.P {
			listed := false
			for _, p := range priorities {
				if p == q {
					listed = true
				}
			}
			if !listed {
				key = q
				break
			}
		}
		distribution[key]++
		m.faulted, m.faultKind = m.divCalls, 3
	case 1: // over-allocate
		distribution[priorities[0]]++
		m.faulted, m.faultKind = m.divCalls, 1
	case 2: // under-allocate; a resulting total of zero is not a reportable fault by contract
		if sum < 2 {
			return
		}
		for _, p := range priorities {
			if distribution[p] > 0 {
				distribution[p]--
				m.faulted, m.faultKind = m.divCalls, 2
				break
			}
		}
	}
}

func spawnErrReader(m *prioMon, get func() <-chan error) {
	if m.cfg.NoErr {
		return // the user never looks at Err() (documented as optional)
	}
	vrt.Spawn("errreader", func() {
		errs := get()
		for {
			e, ok := vrt.Recv2(errs)
			if !ok {
				return
			}
			m.errSeen = append(m.errSeen, e)
			if e != nil && m.faulted == 0 {
				m.f.fail("C07", "Err() yielded %v in normal mode", e)
			}
		}
	})
}

// ---- v1 control: graceful stop, rough stop, cancel, add/remove scripts ----

type v1Ctl struct {
	graceful, stop func()
	cancel         vcontext.CancelFunc
	add            func(ch <-chan Item, p uint)
	remove         func(p uint)
	scriptDone     bool
}

func (m *prioMon) spawnV1Control(c Cfg, v1 *v1Ctl, inputs []chan Item) {
	v1.scriptDone = c.Script == 0
	switch c.Stop {
	case "stop":
		vrt.Spawn("stopper", func() {
			v1.stop()
			m.stopDone()
			if c.Disc == "s1" && m.handling != 0 {
				m.f.fail("C16", "Simple.Stop() returned while %d Handle calls are still running", m.handling)
			}
		})
	case "cancel":
		vrt.Spawn("stopper", func() {
			v1.cancel()
		})
	case "precancel":
		// nothing to do: the context was cancelled before New
	case "twice":
		// Stop() twice in a row from one goroutine and once more from another
		after := func() {
			m.stopDone()
			if c.Disc == "s1" && m.handling != 0 {
				m.f.fail("C16", "Simple.Stop() returned while %d Handle calls are still running", m.handling)
				m.f.fail("C19", "Simple.Stop() returned while %d handler goroutines are still running user code", m.handling)
			}
		}
		vrt.Spawn("stopper", func() {
			v1.stop()
			after()
			v1.stop()
		})
		vrt.Spawn("stopper", func() {
			v1.stop()
			after()
		})
	case "stop+graceful", "cancel+graceful":
		// a graceful stop is requested while a rough one (Stop or cancellation) is under
		// way, from another goroutine, in any order: the rough one decides
		vrt.Spawn("stopper", func() {
			if c.Stop == "stop+graceful" {
				v1.stop()
				m.stopDone()
				if c.Disc == "s1" && m.handling != 0 {
					m.f.fail("C16", "Simple.Stop() returned while %d Handle calls are still running", m.handling)
				}
			} else {
				v1.cancel()
			}
		})
		vrt.Spawn("gstopper", func() {
			v1.graceful()
		})
	case "both":
		// Stop() from one goroutine, context cancellation from another, in any order
		vrt.Spawn("stopper", func() {
			v1.stop()
			m.stopDone()
			if c.Disc == "s1" && m.handling != 0 {
				m.f.fail("C16", "Simple.Stop() returned while %d Handle calls are still running", m.handling)
			}
		})
		vrt.Spawn("canceller", func() {
			v1.cancel()
		})
	default:
		if c.Mode == "gracefulfirst" {
			// documented: a pending graceful stop ends once the remaining inputs are
			// closed OR REMOVED. The inputs stay open; GracefulStop() is requested at
			// once; a control thread removes every input, in any order.
			v1.scriptDone = true
			vrt.Spawn("control", func() {
				left := append([]uint(nil), c.P...)
				for len(left) > 0 {
					vrt.Mark(hashUints(left))
					k := vrt.Choose(len(left))
					p := left[k]
					left = append(left[:k:k], left[k+1:]...)
					var st *vrt.ChanState
					for ch, q := range m.reg {
						if q == p {
							st = ch
						}
					}
					v1.remove(p)
					if st != nil {
						delete(m.reg, st)
						m.removed[st] = true
					}
				}
				vrt.Mark(0xd0e)
			})
		} else if c.Mode == "fromempty" {
			v1.scriptDone = false
			vrt.Spawn("control", func() {
				for i, p := range c.P {
					vrt.Mark(uint64(i) + 0x40)
					st := m.origin[i]
					m.pendingReg[st] = p
					v1.add(inputs[i], p)
					delete(m.pendingReg, st)
					m.reg[st] = p
				}
				vrt.Mark(0xd0e)
				v1.scriptDone = true
			})
		} else if c.Script > 0 {
			m.spawnScript(c, v1, inputs)
		}
		vrt.Spawn("graceful", func() {
			cd := &cond{id: 0x6a1, ready: func() bool { return v1.scriptDone }}
			vrt.Block(cd)
			v1.graceful()
			m.gracefulReturned = true
			// C07: GracefulStop returns only when drained and released
			for i, ch := range m.ins {
				if m.removed[ch] {
					continue
				}
				if _, registered := m.reg[ch]; !registered {
					continue
				}
				if !m.inClosed[i] || ch.Len() != 0 {
					m.f.fail("C07", "GracefulStop() returned although input %d is not closed and drained", i)
				}
			}
			if m.total != 0 && m.faulted == 0 {
				m.f.fail("C07", "GracefulStop() returned although %d delivered items have not been released (in flight %v)", m.total, m.inflight)
			}
			if c.Disc == "s1" && m.handling != 0 {
				m.f.fail("C07", "Simple.GracefulStop() returned while %d Handle calls are still running", m.handling)
			}
		})
	}
}

// spawnScript: the control thread executes a Choose'n sequence of at most
// Script operations out of
//
//	0 AddInput(new channel C, new priority)     3 RemoveInput(lowest priority)
//	1 AddInput(new channel D, highest priority)  4 AddInput(original channel, highest priority)
//	2 RemoveInput(highest priority)                5 AddInput(lowest priority's own channel, lowest priority)
//	6 RemoveInput(a priority never registered)    7 RemoveInput(lowest priority) (again, after 3)
//
// each used at most once; it may stop early.
func (m *prioMon) spawnScript(c Cfg, v1 *v1Ctl, inputs []chan Item) {
	np := len(c.P)
	hi, lo := c.P[0], c.P[np-1]
	newP := hi + 1
	mk := func(idx int, name string, n int) chan Item {
		ch := vrt.MakeChan[Item](n)
		st := vrt.NameChan[Item](ch, name)
		m.ins = append(m.ins, st)
		m.origin[idx] = st
		items := make([]Item, n)
		for k := range items {
			items[k] = Item{idx, k, true}
		}
		vrt.Prefill(ch, items...)
		vrt.CloseNow(ch)
		m.written[idx] = n
		m.inClosed[idx] = true
		return ch
	}
	chC := mk(np, "inC", 2)
	chD := mk(np+1, "inD", 2)
	m.P = append(append([]uint{}, m.P...), newP)
	current := func(p uint) *vrt.ChanState {
		for ch, q := range m.reg {
			if q == p {
				return ch
			}
		}
		return nil
	}
	doAdd := func(ch chan Item, st *vrt.ChanState, p uint) {
		old := current(p)
		m.pendingReg[st] = p
		m.removed[st] = false
		v1.add(ch, p)
		delete(m.pendingReg, st)
		if old != nil && old != st {
			delete(m.reg, old)
			m.removed[old] = true
		}
		m.reg[st] = p
	}
	doRemove := func(p uint) {
		old := current(p)
		v1.remove(p)
		if old != nil {
			delete(m.reg, old)
			m.removed[old] = true
		}
	}
	vrt.Spawn("control", func() {
		used := 0
		for step := 0; step < c.Script; step++ {
			vrt.Mark(vrt.Mix(uint64(used), uint64(step)))
			var avail []int
			for op := 0; op < 8; op++ {
				allowed := len(c.Ops) == 0 && op < 5
				for _, a := range c.Ops {
					if a == op {
						allowed = true
					}
				}
				if allowed && used&(1<<uint(op)) == 0 {
					avail = append(avail, op)
				}
			}
			k := vrt.Choose(len(avail) + 1)
			if k == len(avail) {
				break // stop early
			}
			op := avail[k]
			used |= 1 << uint(op)
			vrt.Mark(vrt.Mix(uint64(used), uint64(step), uint64(op), 9))
			m.scriptLog = append(m.scriptLog, fmt.Sprint(op))
			switch op {
			case 0:
				doAdd(chC, m.origin[np], newP)
			case 1:
				doAdd(chD, m.origin[np+1], hi)
			case 2:
				doRemove(hi)
			case 3:
				doRemove(lo)
			case 4:
				doAdd(inputs[0], m.origin[0], hi)
			case 5:
				// register the lowest priority's own channel once more (a no-op by meaning)
				doAdd(inputs[np-1], m.origin[np-1], lo)
			case 6:
				// remove a priority that was never registered (a no-op by meaning)
				doRemove(hi + 4242)
			case 7:
				// remove the lowest priority (once more, if operation 3 came first)
				doRemove(lo)
			}
		}
		vrt.Mark(vrt.Mix(uint64(used), 0xd0e))
		v1.scriptDone = true
	})
}

// stopDone: Stop() has just returned to its caller.
func (m *prioMon) stopDone() {
	m.stopReturned = true
	if !m.errClosed {
		// Stop() waits for the completion latch, which the discipline's goroutine trips
		// as the very last thing, after it has closed Err()
		m.f.fail("C19", "Stop() returned although the discipline has not terminated (Err() is not closed): its goroutine is still running")
		m.f.fail("C16", "Stop() returned although the discipline has not terminated (Err() is not closed)")
	}
}

func isRough(c Cfg) bool {
	return c.Stop == "stop+graceful" || c.Stop == "cancel+graceful" || c.Stop == "stop" || c.Stop == "cancel" || c.Stop == "both" || c.Stop == "precancel" || c.Stop == "twice"
}
