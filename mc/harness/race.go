package harness

import (
	"time"

	"cqosverif/explore"
	"cqosverif/vrt"
	"cqosverif/vrt/vcontext"

	join1 "github.com/akramarenkov/cqos/join"
	prio1 "github.com/akramarenkov/cqos/priority"
	join2 "github.com/akramarenkov/cqos/v2/join"
	unite2 "github.com/akramarenkov/cqos/v2/join/unite"
	limit2 "github.com/akramarenkov/cqos/v2/limit"
	prio2 "github.com/akramarenkov/cqos/v2/priority"
	div2 "github.com/akramarenkov/cqos/v2/priority/divider"
	simple2 "github.com/akramarenkov/cqos/v2/priority/simple"
)

// Closed systems for C20 (race build): the API is used as documented from
// several threads at once. The thread bodies share no Go variables with each
// other or with the driver: everything they exchange goes through the library
// and through virtual channels, so any report of the detector concerns the
// library or the data it hands to its users. There are no monitors; the oracle
// is the race detector applied to every enumerated schedule.

func init() { Register("race", buildRace) }

func buildRace(c Cfg) *explore.Scenario {
	opt := vrt.Options{Clock: vrt.ClockLapse, KeyHistory: c.KeyHistory, MaxSteps: c.MaxSteps, ResetDepth: libResetDepth}
	if c.Disc == "v2" || c.Disc == "s2" || c.Disc == "v1" || c.Disc == "s1" {
		opt.Clock = vrt.ClockNone
		opt.EagerBelow = 1000
	}
	if opt.MaxSteps == 0 {
		opt.MaxSteps = 3000
	}
	return &explore.Scenario{Name: "race", Config: c.String(), Opt: opt, Build: func(w *vrt.World) *explore.Instance { return newRace(c, w) }}
}

func newRace(c Cfg, w *vrt.World) *explore.Instance {
	n := 2
	if len(c.N) > 0 {
		n = c.N[0]
	}
	capIn := 1
	if len(c.Cap) > 0 {
		capIn = c.Cap[0]
	}
	body := func() {
		switch c.Disc {
		case "v2":
			raceV2(c, n, capIn)
		case "s2":
			raceS2(c, n, capIn)
		case "v1":
			raceV1(c, n, capIn)
		case "s1":
			raceS1(c, n, capIn)
		case "join2":
			in := vrt.MakeChan[int](capIn)
			d, err := join2.New(join2.Opts[int]{Input: in, JoinSize: uint(c.J), NoCopy: c.NoCopy, Timeout: time.Duration(c.Timeout)})
			if err != nil {
				panic(err)
			}
			raceProducer(in, n)
			raceSliceConsumer(d.Output(), c.NoCopy, d.Release)
		case "unite2":
			in := vrt.MakeChan[[]int](capIn)
			d, err := unite2.New(unite2.Opts[int]{Input: in, JoinSize: uint(c.J), NoCopy: c.NoCopy, Timeout: time.Duration(c.Timeout)})
			if err != nil {
				panic(err)
			}
			vrt.Spawn("producer", func() {
				k := 0
				var sent [][]int
				for i := 0; i < n; i++ {
					l := 1 + i%(c.J+1)
					seg := make([]int, l)
					for x := range seg {
						seg[x] = k
						k++
					}
					vrt.Send(in, seg)
					// in copy mode the producer may keep reading what it sent (the
					// discipline only reads it); in no-copy mode oversize slices are
					// forwarded as they are, so it leaves them alone there
					sent = append(sent, seg)
					if !c.NoCopy {
						sum := 0
						for _, old := range sent {
							for _, v := range old {
								sum += v
							}
						}
						_ = sum
					}
				}
				vrt.Close(in)
			})
			raceSliceConsumer(d.Output(), c.NoCopy, d.Release)
		case "join1":
			in := vrt.MakeChan[int](capIn)
			var released chan struct{}
			if c.NoCopy {
				released = vrt.MakeChan[struct{}](0)
			}
			o := join1.Opts[int]{Input: in, JoinSize: uint(c.J), Released: released, Timeout: time.Duration(c.Timeout * msUnit)}
			var cancel vcontext.CancelFunc
			if c.Stop == "cancel" {
				o.Ctx, cancel = vcontext.WithCancel(vcontext.Background())
			}
			d, err := join1.New(o)
			if err != nil {
				panic(err)
			}
			raceProducer(in, n)
			raceSliceConsumer(d.Output(), c.NoCopy, func() { vrt.Send(released, struct{}{}) })
			switch c.Stop {
			case "stop":
				vrt.Spawn("stopper", func() { d.Stop() })
			case "cancel":
				vrt.Spawn("stopper", func() { cancel() })
			}
		case "limit":
			in := vrt.MakeChan[int](capIn)
			d, err := limit2.New(limit2.Opts[int]{Input: in, Limit: limit2.Rate{Interval: time.Duration(c.I), Quantity: c.Q}})
			if err != nil {
				panic(err)
			}
			raceProducer(in, n)
			out := d.Output()
			vrt.Spawn("consumer", func() {
				for {
					if _, ok := vrt.Recv2(out); !ok {
						return
					}
				}
			})
		default:
			panic("race harness: unknown discipline " + c.Disc)
		}
	}
	return &explore.Instance{Body: body, Terminal: func(w *vrt.World, out vrt.Outcome) string { return "" }}
}

func raceProducer(in chan int, n int) {
	vrt.Spawn("producer", func() {
		for i := 0; i < n; i++ {
			vrt.Send(in, i)
		}
		vrt.Close(in)
	})
}

// raceSliceConsumer keeps every slice and writes into it (copy mode) or reads
// it and releases (no-copy mode).
func raceSliceConsumer(out <-chan []int, nocopy bool, release func()) {
	vrt.Spawn("consumer", func() {
		var kept [][]int
		for {
			s, ok := vrt.Recv2(out)
			if !ok {
				break
			}
			if nocopy {
				sum := 0
				for _, v := range s {
					sum += v
				}
				_ = sum
				release()
				continue
			}
			kept = append(kept, s)
			for _, k := range kept {
				for i := range k {
					k[i] = sentinel
				}
			}
		}
	})
}

type raceItem struct{ P, N int }

func raceInputs(c Cfg, n, capIn int) (map[uint]<-chan *raceItem, []chan *raceItem) {
	m := map[uint]<-chan *raceItem{}
	var chans []chan *raceItem
	for _, p := range c.P {
		ch := vrt.MakeChan[*raceItem](capIn)
		m[p] = ch
		chans = append(chans, ch)
	}
	return m, chans
}

func raceProducers(c Cfg, chans []chan *raceItem, n int, closeIt bool) {
	for i, ch := range chans {
		p := int(c.P[i])
		ch := ch
		vrt.Spawn("producer", func() {
			for k := 0; k < n; k++ {
				vrt.Send(ch, &raceItem{P: p, N: k})
			}
			if closeIt {
				vrt.Close(ch)
			}
		})
	}
}

func raceV2(c Cfg, n, capIn int) {
	inputs, chans := raceInputs(c, n, capIn)
	d, err := prio2.New(prio2.Opts[*raceItem]{Divider: div2.Fair, HandlersQuantity: c.H, Inputs: inputs})
	if err != nil {
		panic(err)
	}
	// the caller reuses its Inputs map after the constructor has returned - from a
	// goroutine of its own, ordered with nothing but the return of the constructor
	defer vrt.Spawn("mapreuser", func() {
		for k := range inputs {
			delete(inputs, k)
		}
		inputs[424242] = nil
	})
	raceProducers(c, chans, n, true)
	out := d.Output()
	for h := uint(0); h < c.H; h++ {
		vrt.Spawn("handler", func() {
			for {
				p, ok := vrt.Recv2(out)
				if !ok {
					return
				}
				p.Item.N++ // the handler owns the item it received
				d.Release(p.Priority)
			}
		})
	}
	errs := d.Err()
	vrt.Spawn("errreader", func() { vrt.Recv2(errs) })
}

func raceS2(c Cfg, n, capIn int) {
	inputs, chans := raceInputs(c, n, capIn)
	handle := func(it *raceItem) { it.N++ }
	d, err := simple2.New(simple2.Opts[*raceItem]{Divider: div2.Fair, Handle: handle, HandlersQuantity: c.H, Inputs: inputs})
	if err != nil {
		panic(err)
	}
	// the caller reuses its Inputs map after the constructor has returned - from a
	// goroutine of its own, ordered with nothing but the return of the constructor
	defer vrt.Spawn("mapreuser", func() {
		for k := range inputs {
			delete(inputs, k)
		}
		inputs[424242] = nil
	})
	raceProducers(c, chans, n, true)
	errs := d.Err()
	vrt.Spawn("errreader", func() { vrt.Recv2(errs) })
}

func raceV1(c Cfg, n, capIn int) {
	inputs, chans := raceInputs(c, n, capIn)
	output := vrt.MakeChan[prio1.Prioritized[*raceItem]](c.OutCap)
	feedback := vrt.MakeChan[uint](c.FbCap)
	o := prio1.Opts[*raceItem]{Divider: prio1.FairDivider, Feedback: feedback, HandlersQuantity: c.H, Inputs: inputs, Output: output}
	var cancel vcontext.CancelFunc
	if c.Stop == "cancel" || c.Stop == "both" {
		o.Ctx, cancel = vcontext.WithCancel(vcontext.Background())
	}
	d, err := prio1.New(o)
	if err != nil {
		panic(err)
	}
	// the caller reuses its Inputs map after the constructor has returned - from a
	// goroutine of its own, ordered with nothing but the return of the constructor
	defer vrt.Spawn("mapreuser", func() {
		for k := range inputs {
			delete(inputs, k)
		}
		inputs[424242] = nil
	})
	raceProducers(c, chans, n, true)
	for h := uint(0); h < c.H; h++ {
		vrt.Spawn("handler", func() {
			for {
				p := vrt.Recv(output)
				p.Item.N++
				vrt.Send(feedback, p.Priority)
			}
		})
	}
	// control operations must not be issued once termination has begun (that
	// panics by design): the graceful stop waits for the control threads
	ctlDone := vrt.MakeChan[struct{}](2)
	xcap := 1 // capacity of the channels added at run time (Mode "unbufadd": unbuffered)
	if c.Mode == "unbufadd" {
		xcap = 0
	}
	nctl := 0
	if c.Script > 0 {
		nctl++
		extra := vrt.MakeChan[*raceItem](xcap)
		vrt.Spawn("control", func() {
			d.AddInput(extra, c.P[0]+1)
			vrt.Send(extra, &raceItem{P: int(c.P[0]) + 1})
			d.RemoveInput(c.P[len(c.P)-1])
			vrt.Close(extra)
			vrt.Send(ctlDone, struct{}{})
		})
	}
	if c.Script > 1 {
		// a second goroutine adding and removing concurrently with the first
		nctl++
		extra2 := vrt.MakeChan[*raceItem](xcap)
		vrt.Spawn("control2", func() {
			d.AddInput(extra2, c.P[0]+2)
			d.RemoveInput(c.P[0] + 2)
			vrt.Close(extra2)
			vrt.Send(ctlDone, struct{}{})
		})
	}
	switch c.Stop {
	case "stop":
		vrt.Spawn("stopper", func() { d.Stop() })
	case "cancel":
		vrt.Spawn("stopper", func() { cancel() })
	case "both":
		vrt.Spawn("stopper", func() { d.Stop() })
		vrt.Spawn("canceller", func() { cancel() })
	default:
		vrt.Spawn("graceful", func() {
			for i := 0; i < nctl; i++ {
				vrt.Recv(ctlDone)
			}
			d.GracefulStop()
		})
	}
	errs := d.Err()
	vrt.Spawn("errreader", func() { vrt.Recv2(errs) })
	vrt.Spawn("errreader2", func() { vrt.Recv2(d.Err()) })
}

func raceS1(c Cfg, n, capIn int) {
	inputs, chans := raceInputs(c, n, capIn)
	handle := func(ctx vcontext.Context, it *raceItem) { it.N++ }
	o := prio1.SimpleOpts[*raceItem]{Divider: prio1.FairDivider, Handle: handle, HandlersQuantity: c.H, Inputs: inputs}
	var cancel vcontext.CancelFunc
	if c.Stop == "cancel" {
		o.Ctx, cancel = vcontext.WithCancel(vcontext.Background())
	}
	d, err := prio1.NewSimple(o)
	if err != nil {
		panic(err)
	}
	// the caller reuses its Inputs map after the constructor has returned - from a
	// goroutine of its own, ordered with nothing but the return of the constructor
	defer vrt.Spawn("mapreuser", func() {
		for k := range inputs {
			delete(inputs, k)
		}
		inputs[424242] = nil
	})
	raceProducers(c, chans, n, true)
	switch c.Stop {
	case "stop":
		vrt.Spawn("stopper", func() { d.Stop() })
	case "cancel":
		vrt.Spawn("stopper", func() { cancel() })
	default:
		vrt.Spawn("graceful", func() { d.GracefulStop() })
	}
	errs := d.Err()
	vrt.Spawn("errreader", func() { vrt.Recv2(errs) })
}
