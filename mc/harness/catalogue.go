package harness

// Catalogue returns the configurations explored for a property and tier.
func Catalogue(prop, tier string) []Cfg {
	quick := tier != "thorough"
	var out []Cfg
	add := func(c Cfg) {
		c.Prop = prop
		if c.BudgetS == 0 {
			if quick {
				c.BudgetS = 60
			} else {
				c.BudgetS = 600
			}
		}
		out = append(out, c)
	}
	pc := func(disc string, p []uint, h uint, div string, cp []int, n []int, env string, mode string) Cfg {
		return Cfg{Harness: "prio", Disc: disc, P: p, H: h, Div: div, Cap: cp, N: n, Env: env, Mode: mode, Bound: -1, Graph: true}
	}
	prioCore := func() {
		// v2, receiver+releaser environment
		add(pc("v2", []uint{1}, 1, "fair", []int{2}, []int{2}, "rr", ""))
		add(pc("v2", []uint{1}, 2, "fair", []int{3}, []int{3}, "rr", ""))
		add(pc("v2", []uint{2, 1}, 2, "fair", []int{2}, []int{2}, "rr", ""))
		add(pc("v2", []uint{2, 1}, 2, "rate", []int{2}, []int{2}, "rr", "closeasc"))
		add(pc("v2", []uint{2, 1}, 3, "rate", []int{3}, []int{3, 2}, "rr", ""))
		add(pc("v2", []uint{2, 1}, 3, "low", []int{2}, []int{2, 3}, "rr", ""))
		add(pc("v2", []uint{2, 1}, 2, "fair", []int{0}, []int{2}, "rr", ""))
		add(pc("v2", []uint{2, 1}, 2, "rate", []int{0, 2}, []int{2, 2}, "rr", ""))
		add(pc("v2", []uint{2, 1}, 2, "fair", []int{1}, []int{3, 1}, "rr", ""))
		add(pc("v2", []uint{3, 2, 1}, 3, "fair", []int{2}, []int{2}, "rr", "preclosed"))
		add(pc("v2", []uint{3, 2, 1}, 4, "rate", []int{2}, []int{2, 1, 1}, "rr", "preclosed"))
		// v2, handler pool (README style), one handler more than capacity
		add(pc("v2", []uint{2, 1}, 2, "fair", []int{2}, []int{2}, "pool", ""))
		add(pc("v2", []uint{2, 1}, 2, "rate", []int{2}, []int{2, 1}, "pool", "extra"))
		// simple v2
		add(pc("s2", []uint{2, 1}, 2, "fair", []int{2}, []int{2, 1}, "", ""))
		// v1
		add(pc("v1", []uint{2, 1}, 2, "fair", []int{2}, []int{2}, "rr", ""))
		c := pc("v1", []uint{2, 1}, 2, "rate", []int{2}, []int{2}, "pool", "")
		c.OutCap, c.FbCap = 1, 1
		add(c)
		c = pc("v1", []uint{2, 1}, 3, "fair", []int{0, 2}, []int{2, 2}, "rr", "")
		c.OutCap = 1
		add(c)
		// simple v1
		add(pc("s1", []uint{2, 1}, 2, "fair", []int{2}, []int{1, 1}, "", ""))
		if !quick {
			add(pc("v2", []uint{3, 2, 1}, 3, "fair", []int{2}, []int{2}, "rr", ""))
			add(pc("v2", []uint{3, 2, 1}, 6, "rate", []int{3}, []int{3, 2, 1}, "rr", "preclosed"))
			add(pc("v2", []uint{3, 2, 1}, 4, "rate", []int{2}, []int{2}, "rr", ""))
			add(pc("v2", []uint{3, 2, 1}, 3, "low", []int{0, 1, 2}, []int{2}, "rr", ""))
			add(pc("v2", []uint{7, 5, 3, 2}, 4, "fair", []int{1}, []int{1}, "rr", "preclosed"))
			add(pc("v2", []uint{2, 1}, 3, "rate", []int{3}, []int{3}, "pool", "extra"))
			add(pc("s2", []uint{2, 1}, 2, "fair", []int{2}, []int{2}, "", ""))
			add(pc("s2", []uint{2, 1}, 3, "rate", []int{0, 2}, []int{2}, "", ""))
			add(pc("v1", []uint{3, 2, 1}, 3, "fair", []int{2}, []int{2}, "rr", "preclosed"))
			add(pc("s1", []uint{2, 1}, 2, "fair", []int{2}, []int{2}, "", ""))
		}
	}
	switch prop {
	case "C01", "C02", "C07", "C19":
		prioCore()
	case "C03":
		for _, disc := range []string{"join2", "unite2", "join1"} {
			for _, j := range []int{1, 2, 3} {
				for _, nocopy := range []bool{false, true} {
					for _, cp := range []int{0, 1, j} {
						n := 2*j + 1
						if !quick {
							n = 3*j + 2
						}
						c := Cfg{Harness: "join", Disc: disc, J: j, NoCopy: nocopy, Cap: []int{cp}, N: []int{n}, Bound: -1}
						if disc == "unite2" {
							c.Lens = []int{0, 1, j - 1, j, j + 1}
							if j == 1 {
								c.Lens = []int{0, 1, 2}
							}
							if j == 2 {
								c.Lens = []int{0, 1, 2, 3}
							}
						}
						add(c)
					}
				}
			}
		}
	}
	return out
}

// Rule describes how cases are enumerated and what makes one distinct.
func Rule(prop string) string {
	return "exhaustive depth-first enumeration (by re-execution, with state caching) of all interleavings, select outcomes, Choose values and clock advances of each listed closed system built around the real discipline code; distinct_nontrivial counts distinct terminal observations (delivery sequences x terminal status) summed over configurations"
}

// Assumptions of the checks of a property.
func Assumptions(prop string) []string {
	return []string{
		"code between two virtual-runtime operations is atomic (sound for data-race-free code; data-race freedom is property C20)",
		"the source rewrite (vxform) and the virtual runtime (vrt) preserve Go channel/select/time semantics; vrt is differentially tested against native channels",
		"bounded configurations as listed in coverage.per_configuration",
	}
}
