package harness

// Catalogue returns the configurations explored for a property and tier.
func Catalogue(prop, tier string) []Cfg {
	quick := tier != "thorough"
	var out []Cfg
	add := func(c Cfg) {
		c.Prop = prop
		if c.Harness == "prio" && (c.Disc == "v2" || c.Disc == "s2") && (c.Div == "fair" || c.Div == "rate" || c.Div == "low") {
			// v2 rejects quantities for which some priority's share is zero: use the
			// smallest quantity from the requested one upwards that the constructor accepts
			for !accepted(c.P, c.H, c.Div) {
				c.H++
			}
		}
		if c.BudgetS == 0 {
			if quick {
				c.BudgetS = 40
			} else {
				c.BudgetS = 600
			}
		}
		out = append(out, c)
	}
	pc := func(disc string, p []uint, h uint, div string, cp []int, n []int, env string, mode string) Cfg {
		return Cfg{Harness: "prio", Disc: disc, P: p, H: h, Div: div, Cap: cp, N: n, Env: env, Mode: mode, Bound: -1, Graph: true}
	}
	prioCore := func() {
		// v2, receiver+releaser environment
		add(pc("v2", []uint{1}, 1, "fair", []int{2}, []int{2}, "rr", ""))
		add(pc("v2", []uint{1}, 2, "fair", []int{3}, []int{3}, "rr", ""))
		add(pc("v2", []uint{2, 1}, 2, "fair", []int{2}, []int{2}, "rr", ""))
		add(pc("v2", []uint{2, 1}, 2, "rate", []int{2}, []int{2}, "rr", "closeasc"))
		add(pc("v2", []uint{2, 1}, 3, "rate", []int{3}, []int{3, 2}, "rr", ""))
		add(pc("v2", []uint{2, 1}, 3, "low", []int{2}, []int{2, 3}, "rr", ""))
		add(pc("v2", []uint{2, 1}, 2, "fair", []int{0}, []int{2}, "rr", ""))
		add(pc("v2", []uint{2, 1}, 2, "rate", []int{0, 2}, []int{2, 2}, "rr", ""))
		add(pc("v2", []uint{2, 1}, 2, "fair", []int{1}, []int{3, 1}, "rr", ""))
		add(pc("v2", []uint{3, 2, 1}, 3, "fair", []int{2}, []int{2}, "rr", "preclosed"))
		add(pc("v2", []uint{3, 2, 1}, 4, "rate", []int{2}, []int{2, 1, 1}, "rr", "preclosed"))
		// priority value 0 (legal map key) and a single priority
		add(pc("v2", []uint{1, 0}, 2, "fair", []int{2}, []int{2, 1}, "rr", ""))
		add(pc("v1", []uint{1, 0}, 2, "fair", []int{2}, []int{1, 2}, "rr", ""))
		add(pc("v2", []uint{5}, 2, "rate", []int{0}, []int{3}, "rr", ""))
		add(pc("s2", []uint{1, 0}, 2, "fair", []int{2}, []int{1, 2}, "", ""))
		add(pc("s1", []uint{1, 0}, 2, "fair", []int{2}, []int{1, 2}, "", ""))
		// the accessors are first called by the consumers themselves, concurrently
		for _, l := range []Cfg{
			pc("v2", []uint{2, 1}, 2, "fair", []int{1}, []int{1}, "pool", ""),
			pc("v2", []uint{2, 1}, 2, "fair", []int{2}, []int{1, 1}, "rr", ""),
			pc("s2", []uint{2, 1}, 2, "fair", []int{1}, []int{1}, "", ""),
		} {
			l.LazyAcc = true
			add(l)
		}
		// fan-out: another goroutine reads the highest priority's input too
		add(pc("v2", []uint{2, 1}, 2, "fair", []int{3, 1}, []int{3, 1}, "rr", "thief"))
		add(pc("v2", []uint{1}, 2, "fair", []int{3}, []int{3}, "pool", "thief"))
		add(pc("s2", []uint{2, 1}, 2, "fair", []int{3, 1}, []int{3, 1}, "", "thief"))
		// v2, handler pool (README style), one handler more than capacity
		add(pc("v2", []uint{2, 1}, 2, "fair", []int{2}, []int{2}, "pool", ""))
		add(pc("v2", []uint{2, 1}, 2, "rate", []int{2}, []int{2, 1}, "pool", "extra"))
		// simple v2
		add(pc("s2", []uint{2, 1}, 2, "fair", []int{2}, []int{2, 1}, "", ""))
		// v1
		add(pc("v1", []uint{2, 1}, 2, "fair", []int{2}, []int{2}, "rr", ""))
		c := pc("v1", []uint{2, 1}, 2, "rate", []int{2}, []int{2}, "pool", "")
		c.OutCap, c.FbCap = 1, 1
		add(c)
		c = pc("v1", []uint{2, 1}, 3, "fair", []int{0, 2}, []int{2, 2}, "rr", "")
		c.OutCap = 1
		add(c)
		// simple v1
		add(pc("s1", []uint{2, 1}, 2, "fair", []int{2}, []int{1, 1}, "", ""))
		// single-slot inputs fed by producers that are slower than the discipline
		add(pc("v1", []uint{2, 1}, 2, "fair", []int{1}, []int{2}, "rr", ""))
		add(pc("v2", []uint{2, 1}, 2, "fair", []int{1}, []int{2}, "rr", ""))
		// one handler, Handle takes a while
		{
			c := pc("s2", []uint{1}, 1, "fair", []int{2}, []int{2}, "", "")
			c.Yields = 1
			add(c)
			c = pc("s1", []uint{1}, 1, "fair", []int{2}, []int{2}, "", "")
			c.Yields = 1
			add(c)
		}
		// v1 accepts fewer handlers than inputs
		add(pc("s1", []uint{2, 1}, 1, "fair", []int{2}, []int{2, 1}, "", ""))
		add(pc("v1", []uint{2, 1}, 1, "fair", []int{2}, []int{1, 1}, "rr", ""))
		// key-mode cross-checks: a history-keyed exploration cut at depth Cross must
		// reach no monitor state that the state-keyed exploration misses
		for _, x := range []Cfg{
			pc("v2", []uint{2, 1}, 2, "fair", []int{2}, []int{2}, "rr", ""),
			pc("v2", []uint{2, 1}, 2, "rate", []int{0, 1}, []int{1, 1}, "pool", ""),
			pc("v1", []uint{2, 1}, 2, "fair", []int{1}, []int{1}, "pool", ""),
			pc("s2", []uint{2, 1}, 2, "fair", []int{1}, []int{1}, "", ""),
			pc("s1", []uint{2, 1}, 2, "fair", []int{1}, []int{1}, "", ""),
		} {
			x.Cross = 40
			add(x)
		}
		if !quick {
			add(pc("v2", []uint{3, 2, 1}, 3, "fair", []int{2}, []int{2}, "rr", ""))
			add(pc("v2", []uint{3, 2, 1}, 6, "rate", []int{3}, []int{3, 2, 1}, "rr", "preclosed"))
			add(pc("v2", []uint{3, 2, 1}, 4, "rate", []int{2}, []int{2}, "rr", ""))
			add(pc("v2", []uint{3, 2, 1}, 3, "low", []int{0, 1, 2}, []int{2}, "rr", ""))
			add(pc("v2", []uint{7, 5, 3, 2}, 4, "fair", []int{1}, []int{1}, "rr", "preclosed"))
			add(pc("v2", []uint{2, 1}, 3, "rate", []int{3}, []int{3}, "pool", "extra"))
			add(pc("s2", []uint{2, 1}, 2, "fair", []int{2}, []int{2}, "", ""))
			add(pc("s2", []uint{2, 1}, 3, "rate", []int{0, 2}, []int{2}, "", ""))
			add(pc("v1", []uint{3, 2, 1}, 3, "fair", []int{2}, []int{2}, "rr", "preclosed"))
			add(pc("s1", []uint{2, 1}, 2, "fair", []int{2}, []int{2}, "", ""))
			// larger systems, iterative preemption bounding (0, 1, 2, 3)
			for b := 0; b <= 3; b++ {
				for _, c := range []Cfg{
					pc("v2", []uint{3, 2, 1}, 6, "rate", []int{3}, []int{3, 2, 1}, "rr", ""),
					pc("v2", []uint{70, 20, 10}, 10, "rate", []int{8, 3, 2}, []int{8, 3, 2}, "rr", "preclosed"),
					pc("v2", []uint{7, 5, 3, 2}, 5, "rate", []int{0, 1, 2, 1}, []int{2, 1, 2, 1}, "rr", ""),
					pc("v2", []uint{3, 2, 1}, 3, "fair", []int{3}, []int{3}, "pool", "extra"),
					pc("s2", []uint{3, 2, 1}, 3, "fair", []int{2}, []int{2, 1, 1}, "", ""),
					pc("v1", []uint{3, 2, 1}, 4, "rate", []int{2}, []int{2}, "pool", ""),
					pc("s1", []uint{3, 2, 1}, 3, "fair", []int{2}, []int{2, 1, 1}, "", ""),
				} {
					c.Bound = b
					c.Graph = false
					add(c)
				}
			}
		}
	}
	scripts := func() {
		// v1 add / replace / remove / re-add scripts
		c := pc("v1", []uint{2, 1}, 2, "fair", []int{1, 3}, []int{1, 3}, "rr", "")
		c.Script, c.Ops = 1, []int{2} // remove the highest priority while its item is in flight
		add(c)
		c = pc("v1", []uint{2, 1}, 2, "fair", []int{1}, []int{1}, "rr", "")
		c.Script, c.Ops = 2, []int{1, 2, 3, 4}
		add(c)
		c = pc("v1", []uint{2, 1}, 3, "fair", []int{2, 1}, []int{2, 1}, "rr", "preclosed")
		c.Script = 2
		add(c)
		c = pc("v1", []uint{2, 1}, 3, "fair", []int{1}, []int{1}, "pool", "")
		c.Script, c.Ops = 2, []int{0, 1, 3}
		add(c)
		// three priorities: the lowest one is removed while the highest has a backlog
		c = pc("v1", []uint{3, 2, 1}, 2, "fair", []int{3, 1, 1}, []int{3, 0, 0}, "rr", "")
		c.Script, c.Ops = 1, []int{3}
		add(c)
		c = pc("v1", []uint{3, 2, 1}, 6, "rate", []int{4, 1, 1}, []int{4, 0, 1}, "rr", "")
		c.Script, c.Ops = 1, []int{3}
		add(c)
		// removals that are no-ops by meaning: a priority never registered, a priority removed twice
		c = pc("v1", []uint{2, 1}, 2, "fair", []int{1}, []int{1, 1}, "rr", "")
		c.Script, c.Ops = 1, []int{6}
		add(c)
		c = pc("v1", []uint{2, 1}, 2, "fair", []int{1}, []int{1, 1}, "rr", "")
		c.Script, c.Ops = 2, []int{3, 7}
		add(c)
		c = pc("v1", []uint{2, 1}, 2, "fair", []int{1}, []int{1, 1}, "pool", "")
		c.Script, c.Ops = 3, []int{6, 7, 0}
		add(c)
		// every input is removed (items still in flight), then a new one is added
		c = pc("v1", []uint{2, 1}, 2, "fair", []int{2}, []int{2, 1}, "rr", "")
		c.Script, c.Ops = 3, []int{2, 3, 0}
		add(c)
		c = pc("v1", []uint{2, 1}, 3, "fair", []int{2}, []int{2, 2}, "rr", "")
		c.Script, c.Ops = 3, []int{2, 3, 0}
		add(c)
	}
	// every sequence of at most Script operations out of the default alphabet (0-4)
	scriptsAll := func() {
		for _, env := range []string{"rr"} {
			n2, n21 := []int{1}, []int{1, 1}
			if !quick {
				n2, n21 = []int{2}, []int{2, 1}
			}
			c := pc("v1", []uint{2, 1}, 3, "fair", []int{2}, n2, env, "")
			c.Script = 2
			if !quick {
				c.Script = 3
			}
			add(c)
			c = pc("v1", []uint{2, 1}, 3, "rate", []int{2}, n21, env, "preclosed")
			c.Script = 3
			if !quick {
				c.Script = 4
			}
			add(c)
			c = pc("v1", []uint{2, 1}, 3, "fair", []int{0, 2}, n21, env, "")
			c.Script = 2
			c.OutCap = 1
			add(c)
		}
		c := pc("v1", []uint{2, 1}, 3, "fair", []int{2}, []int{1, 1}, "pool", "")
		c.Script = 2
		add(c)
	}
	switch prop {
	case "C01", "C02", "C07":
		prioCore()
		scripts()
		if prop == "C02" || prop == "C07" {
			// v1 accepts configurations in which the divider leaves a priority without an
			// entry (the helpers call them fatal; v2 rejects them): the unchanged code
			// still serves such a priority from idle handlers and waits for its input
			add(pc("v1", []uint{7, 5, 3, 1}, 8, "rate", []int{1}, []int{1, 0, 0, 1}, "rr", ""))
			add(pc("v1", []uint{7, 5, 3, 1}, 8, "rate", []int{1}, []int{0, 0, 0, 1}, "pool", ""))
			add(pc("v1", []uint{7, 5, 3, 1}, 8, "rate", []int{1, 1, 1, 0}, []int{0, 0, 0, 2}, "pool", "")) // the share-less input is fed by a producer
		}
		if prop == "C07" {
			// negative harnesses: while an input stays open, or an item is never released,
			// the discipline must not terminate - for any length of time (closed cycles)
			for _, d := range []string{"v2", "v1"} {
				add(pc(d, []uint{2, 1}, 2, "fair", []int{1}, []int{1, 1}, "rr", "open"))
				add(pc(d, []uint{2, 1}, 2, "rate", []int{0, 1}, []int{1, 1}, "pool", "open"))
				w := pc(d, []uint{2, 1}, 2, "fair", []int{2}, []int{2, 1}, "rr", "withhold")
				w.R = 2 // three items, two releases: one item is withheld for ever
				add(w)
				w = pc(d, []uint{2, 1}, 3, "rate", []int{2}, []int{2, 2}, "rr", "withhold")
				w.R = 3
				add(w)
			}
			add(pc("s2", []uint{2, 1}, 2, "fair", []int{1}, []int{1, 1}, "", "open"))
			// a legal custom divider must not make the discipline report an error
			add(pc("v2", []uint{2, 1}, 4, "stray", []int{3}, []int{3, 2}, "rr", "preclosed"))
			add(pc("v1", []uint{2, 1}, 4, "stray", []int{3}, []int{3, 2}, "rr", "preclosed"))
			add(pc("s2", []uint{2, 1}, 3, "stray", []int{3}, []int{3, 2}, "", ""))
			// promptness of termination: history-keyed exploration to a fixed depth, so that
			// state carried in locals of the main loop across idle rounds (which the state
			// key does not see) cannot merge a slow path into a prompt one
			for _, d := range []struct {
				disc string
				p    []uint
				h    uint
				n    []int
				deep int
			}{
				{"v2", []uint{1}, 1, []int{1}, 160}, {"v2", []uint{1}, 1, []int{0}, 160}, {"v2", []uint{2, 1}, 2, []int{1, 0}, 40},
				{"s2", []uint{1}, 1, []int{1}, 120},
			} {
				c := pc(d.disc, d.p, d.h, "fair", []int{2}, d.n, "rr", "")
				c.Deep = d.deep
				if !quick {
					c.Deep = d.deep * 3 / 2
				}
				add(c)
			}
		}
		if prop == "C01" {
			// endless inputs: capacity over runs of unbounded length (closed state graph)
			add(pc("v2", []uint{2, 1}, 2, "fair", []int{1}, []int{0}, "rr", "endless"))
			add(pc("v2", []uint{2, 1}, 3, "rate", []int{2}, []int{0}, "pool", "endless"))
			add(pc("v2", []uint{3, 2, 1}, 3, "low", []int{1}, []int{0}, "rr", "endless"))
			add(pc("v1", []uint{2, 1}, 2, "rate", []int{1}, []int{0}, "rr", "endless"))
			add(pc("s2", []uint{2, 1}, 2, "fair", []int{1}, []int{0}, "", "endless"))
			// a sum-preserving custom divider that also writes an entry for a priority without an input
			add(pc("v2", []uint{2, 1}, 4, "stray", []int{1}, []int{0}, "rr", "endless"))
			add(pc("v1", []uint{2, 1}, 4, "stray", []int{1}, []int{0}, "rr", "endless"))
			add(pc("v2", []uint{2, 1}, 3, "stray", []int{3}, []int{3, 2}, "rr", "preclosed"))
			add(pc("s2", []uint{2, 1}, 3, "stray", []int{3}, []int{3, 2}, "", ""))
			// a divider that ignores the list it is given (fixed table incl. a priority without input)
			add(pc("v2", []uint{2, 1}, 4, "table", []int{1}, []int{0}, "rr", "endless"))
			add(pc("v2", []uint{2, 1}, 6, "table", []int{1}, []int{0}, "rr", "endless"))
			add(pc("v1", []uint{2, 1}, 4, "table", []int{1}, []int{0}, "rr", "endless"))
			add(pc("s2", []uint{2, 1}, 4, "table", []int{1}, []int{0}, "", "endless"))
		}
	case "C19":
		// every way of terminating, every discipline
		prioCore()
		for _, d := range []string{"v2", "s2", "v1", "s1"} {
			c := pc(d, []uint{2, 1}, 2, "fair", []int{2}, []int{2, 1}, "rr", "")
			c.Fault = true
			add(c)
		}
		for _, mode := range []string{"", "norelease"} {
			c := pc("s1", []uint{1}, 1, "fair", []int{2}, []int{2}, "", mode)
			c.Stop = "twice"
			add(c)
			c = pc("v1", []uint{2, 1}, 2, "fair", []int{2}, []int{2, 1}, "pool", mode)
			c.Stop = "twice"
			add(c)
		}
		for _, stop := range []string{"stop", "cancel", "stop+graceful", "cancel+graceful"} {
			c := pc("v1", []uint{2, 1}, 2, "fair", []int{2}, []int{2}, "pool", "")
			c.Stop = stop
			add(c)
			c = pc("s1", []uint{2, 1}, 2, "fair", []int{2}, []int{1, 1}, "", "")
			c.Stop = stop
			add(c)
			if stop == "stop+graceful" || stop == "cancel+graceful" {
				continue
			}
			add(Cfg{Harness: "join", Disc: "join1", J: 2, NoCopy: true, Cap: []int{1}, N: []int{4}, Stop: stop, Timeout: 4, Pauses: []int64{0, 5}, Delays: []int64{0, 5}, Bound: -1})
		}
		for _, disc := range []string{"join2", "unite2", "join1"} {
			for _, nocopy := range []bool{false, true} {
				c := Cfg{Harness: "join", Disc: disc, J: 2, NoCopy: nocopy, Cap: []int{1}, N: []int{4}, Timeout: 4, Pauses: []int64{0, 5}, Delays: []int64{0, 3}, Bound: -1}
				if disc == "unite2" {
					c.Lens = []int{0, 1, 2, 3}
				}
				add(c)
			}
		}
		add(Cfg{Harness: "limit", Q: 2, I: 3, Cap: []int{1}, N: []int{5}, Pauses: []int64{0, 1}, Delays: []int64{0, 1}, Bound: -1})
		add(Cfg{Harness: "limit", Q: 2, I: 3, Cap: []int{5}, N: []int{4}, Mode: "prefill", Bound: -1})
		// an item is never released: the discipline must not announce termination, and if it
		// does, nothing of it may stay behind
		for _, d := range []string{"v2", "v1"} {
			wc := pc(d, []uint{2, 1}, 2, "fair", []int{2}, []int{2, 1}, "rr", "withhold")
			wc.R = 2
			add(wc)
			wc = pc(d, []uint{1}, 2, "fair", []int{2}, []int{2}, "rr", "withhold")
			wc.R = 1
			add(wc)
		}
		// v1: the context given in the options is the user's own implementation of the interface
		for _, stop := range []string{"", "stop", "cancel"} {
			c := pc("v1", []uint{2, 1}, 2, "fair", []int{2}, []int{2, 1}, "pool", "")
			c.Stop, c.UserCtx = stop, true
			add(c)
			c = pc("s1", []uint{2, 1}, 2, "fair", []int{2}, []int{1, 1}, "", "")
			c.Stop, c.UserCtx = stop, true
			add(c)
			add(Cfg{Harness: "join", Disc: "join1", J: 2, NoCopy: stop == "", UserCtx: true, Cap: []int{1}, N: []int{3}, Stop: stop, Timeout: 4, Pauses: []int64{0, 5}, Delays: []int64{0, 5}, Bound: -1})
		}
	case "C05x":
	case "C05":
		// endless inputs: data waiting for ever, runs of unbounded length (the state graph closes)
		for _, e := range []struct {
			d   string
			p   []uint
			h   uint
			div string
			env string
		}{
			{"v2", []uint{2, 1}, 2, "fair", "rr"}, {"v2", []uint{2, 1}, 3, "rate", "rr"}, {"v2", []uint{2, 1}, 3, "low", "rr"},
			{"v2", []uint{3, 2, 1}, 3, "fair", "rr"}, {"v2", []uint{3, 2, 1}, 4, "rate", "rr"}, {"v2", []uint{2, 1}, 2, "fair", "pool"},
			{"v1", []uint{2, 1}, 2, "fair", "rr"}, {"v1", []uint{2, 1}, 3, "rate", "rr"}, {"v1", []uint{3, 2, 1}, 3, "fair", "rr"},
		} {
			add(pc(e.d, e.p, e.h, e.div, []int{1}, []int{0}, e.env, "endless"))
		}
		// v1: re-registering a priority's own channel must not change the shares
		{
			c := pc("v1", []uint{2, 1}, 3, "rate", []int{1}, []int{0}, "rr", "endless")
			c.Script, c.Ops = 1, []int{5}
			add(c)
			c = pc("v1", []uint{7, 5, 3, 1}, 8, "rate", []int{1}, []int{0}, "rr", "endless")
			c.Script, c.Ops = 1, []int{5}
			add(c)
		}
		// priority values at the top of the type
		add(pc("v2", []uint{1<<64 - 1, 1}, 3, "fair", []int{1}, []int{0}, "rr", "endless"))
		add(pc("v2", []uint{1 << 63, 5, 1}, 4, "fair", []int{1}, []int{0}, "rr", "endless"))
		add(pc("v1", []uint{1<<64 - 1, 1 << 62}, 3, "fair", []int{1}, []int{0}, "rr", "endless"))
		if !quick {
			add(pc("v2", []uint{3, 2, 1}, 6, "rate", []int{2}, []int{0}, "rr", "endless"))
			add(pc("v2", []uint{5, 3, 1}, 5, "rate", []int{1}, []int{0}, "rr", "endless"))
			add(pc("v2", []uint{3, 2, 1}, 5, "fair", []int{1}, []int{0}, "rr", "endless"))
			add(pc("v1", []uint{3, 2, 1}, 6, "rate", []int{1}, []int{0}, "rr", "endless"))
			add(pc("v2", []uint{3, 2, 1}, 3, "fair", []int{1}, []int{0}, "pool", "endless"))
		}
		sat := func(disc string, p []uint, h uint, div string, r int, env string) {
			for !accepted(p, h, div) {
				h++ // smallest quantity the constructor accepts
			}
			n := int(h) + r
			c := pc(disc, p, h, div, []int{n}, []int{n}, env, "saturate")
			c.R = r
			add(c)
		}
		sat("v2", []uint{2, 1}, 2, "fair", 3, "rr")
		sat("v2", []uint{2, 1}, 3, "rate", 3, "rr")
		sat("v2", []uint{2, 1}, 3, "low", 3, "rr")
		sat("v2", []uint{3, 2, 1}, 3, "fair", 2, "rr")
		sat("v2", []uint{3, 2, 1}, 4, "rate", 2, "rr")
		sat("v2", []uint{3, 2, 1}, 6, "rate", 2, "rr")
		sat("v2", []uint{5, 3, 1}, 4, "rate", 2, "rr")
		sat("v1", []uint{2, 1}, 2, "fair", 3, "rr")
		sat("v1", []uint{2, 1}, 3, "rate", 3, "rr")
		sat("v1", []uint{3, 2, 1}, 3, "fair", 2, "rr")
		sat("v2", []uint{2, 1}, 2, "fair", 2, "pool")
		sat("v2", []uint{3, 2, 1}, 6, "fair", 4, "rr") // bursts of up to four releases, uneven over the priorities
		if !quick {
			sat("v2", []uint{2, 1}, 4, "rate", 5, "rr")
			sat("v2", []uint{3, 2, 1}, 6, "rate", 4, "rr")
			sat("v2", []uint{3, 2, 1}, 5, "fair", 4, "rr")
			sat("v2", []uint{5, 3, 1}, 7, "rate", 3, "rr")
			sat("v2", []uint{70, 20, 10}, 10, "rate", 2, "rr")
			sat("v1", []uint{3, 2, 1}, 6, "rate", 3, "rr")
			sat("v2", []uint{3, 2, 1}, 3, "low", 4, "rr")
		}
	case "C06":
		scripts() // additions and removals must not stall the discipline either
		scriptsAll()
		// single active priority with n >= H+1, sparse inputs, skewed priorities,
		// unbuffered inputs, minimum H
		add(pc("v2", []uint{2, 1}, 2, "fair", []int{3, 0}, []int{3, 0}, "rr", ""))
		add(pc("v2", []uint{2, 1}, 2, "rate", []int{0, 3}, []int{0, 3}, "rr", ""))
		add(pc("v2", []uint{3, 2, 1}, 3, "fair", []int{1}, []int{1, 0, 1}, "rr", ""))
		add(pc("v2", []uint{3, 2, 1}, 4, "rate", []int{4, 1, 1}, []int{4, 0, 0}, "rr", "preclosed"))
		add(pc("v2", []uint{100, 1}, 2, "fair", []int{2}, []int{2}, "rr", ""))
		add(pc("v2", []uint{100, 1}, 101, "rate", []int{1}, []int{1, 2}, "rr", "preclosed"))
		add(pc("v2", []uint{1}, 1, "fair", []int{0}, []int{3}, "rr", ""))
		add(pc("v2", []uint{2, 1}, 2, "fair", []int{0}, []int{2}, "pool", ""))
		add(pc("v2", []uint{2, 1}, 2, "rate", []int{2}, []int{2}, "pool", ""))
		add(pc("v2", []uint{7, 5, 3, 2}, 4, "fair", []int{1}, []int{1}, "rr", "preclosed"))
		add(pc("v2", []uint{7, 5, 3, 2}, 5, "rate", []int{1}, []int{1, 0, 1, 1}, "rr", "preclosed"))
		add(pc("s2", []uint{2, 1}, 2, "fair", []int{2}, []int{2, 1}, "", ""))
		add(pc("v1", []uint{2, 1}, 2, "fair", []int{3, 0}, []int{3, 0}, "rr", ""))
		add(pc("v1", []uint{2, 1}, 3, "rate", []int{0, 2}, []int{2, 2}, "pool", ""))
		// alone: only one priority has data, handlers never release: it must get all H
		for _, d := range []string{"v2", "v1"} {
			c := pc(d, []uint{3, 2, 1}, 3, "fair", []int{4, 1, 1}, []int{4, 0, 0}, "rr", "alone")
			add(c)
			c = pc(d, []uint{3, 2, 1}, 4, "rate", []int{1, 1, 5}, []int{0, 0, 5}, "rr", "alone")
			add(c)
			c = pc(d, []uint{2, 1}, 3, "rate", []int{1, 4}, []int{0, 4}, "rr", "alone")
			add(c)
		}
		// an input that stays open and silent must not starve the others
		add(pc("v2", []uint{2, 1}, 2, "fair", []int{0, 0}, []int{0, 2}, "rr", "idleopen"))
		add(pc("v2", []uint{2, 1}, 2, "fair", []int{0, 2}, []int{0, 3}, "rr", "idleopen"))
		add(pc("v2", []uint{2, 1}, 3, "rate", []int{2, 0}, []int{2, 0}, "pool", "idleopen"))
		add(pc("v1", []uint{2, 1}, 2, "fair", []int{0, 0}, []int{0, 2}, "rr", "idleopen"))
		// v1: a priority is removed and registered again while the other input is
		// saturated for ever (runs of unbounded length): its items are still delivered
		for _, ops := range [][]int{{3, 5}, {2, 4}} {
			n := []int{-1, 2}
			if ops[0] == 2 {
				n = []int{2, -1}
			}
			for _, h := range []uint{2, 4} {
				c := pc("v1", []uint{2, 1}, h, "fair", []int{2}, n, "rr", "mixed")
				c.Script, c.Ops = 2, ops
				add(c)
			}
		}
		// stingy: the releaser may stop for good at any time
		add(pc("v2", []uint{2, 1}, 2, "fair", []int{3}, []int{3}, "rr", "stingy"))
		add(pc("v2", []uint{2, 1}, 3, "rate", []int{0, 3}, []int{2, 3}, "rr", "stingy"))
		add(pc("v2", []uint{3, 2, 1}, 3, "fair", []int{2}, []int{2}, "rr", "stingy"))
		add(pc("v1", []uint{2, 1}, 2, "fair", []int{3}, []int{3}, "rr", "stingy"))
		if !quick {
			add(pc("v2", []uint{3, 2, 1}, 3, "fair", []int{2}, []int{2}, "rr", ""))
			add(pc("v2", []uint{3, 2, 1}, 4, "rate", []int{0, 1, 2}, []int{2, 1, 2}, "rr", ""))
			add(pc("v2", []uint{7, 5, 3, 2}, 5, "rate", []int{2}, []int{2, 1, 1, 1}, "rr", "preclosed"))
			add(pc("v1", []uint{3, 2, 1}, 3, "fair", []int{2}, []int{2, 1, 2}, "rr", "preclosed"))
		}
	case "C15":
		for _, d := range []string{"v2", "v1"} {
			c := pc(d, []uint{2, 1}, 2, "fair", []int{2}, []int{2}, "rr", "")
			c.Fault = true
			add(c)
			c = pc(d, []uint{2, 1}, 3, "rate", []int{3}, []int{3, 2}, "rr", "")
			c.Fault = true
			add(c)
			c = pc(d, []uint{3, 2, 1}, 3, "fair", []int{1}, []int{1}, "rr", "preclosed")
			c.Fault = true
			add(c)
			c = pc(d, []uint{2, 1}, 2, "fair", []int{0, 2}, []int{2}, "pool", "")
			c.Fault = true
			add(c)
		}
		// v1: AddInput for a configured priority that the divider leaves without an entry
		{
			c := pc("v1", []uint{7, 5, 3, 1}, 8, "rate", []int{1}, []int{1, 0, 0, 1}, "rr", "")
			c.Script, c.Ops = 1, []int{5}
			add(c)
		}
		// divider contract with priority values at the top of the type (no fault needed)
		for _, d := range []string{"v2", "v1"} {
			add(pc(d, []uint{1<<64 - 1, 1}, 3, "fair", []int{2}, []int{2, 1}, "rr", "preclosed"))
			add(pc(d, []uint{1 << 63, 1<<63 - 1, 7}, 4, "fair", []int{1}, []int{1}, "rr", "preclosed"))
		}
		c := pc("s2", []uint{2, 1}, 2, "fair", []int{2}, []int{2, 1}, "", "")
		c.Fault = true
		add(c)
		c = pc("s1", []uint{2, 1}, 2, "fair", []int{2}, []int{1, 1}, "", "")
		c.Fault = true
		add(c)
		if !quick {
			for _, d := range []string{"v2", "v1", "s2", "s1"} {
				c = pc(d, []uint{3, 2, 1}, 3, "fair", []int{2}, []int{2, 1, 1}, "rr", "")
				c.Fault = true
				add(c)
				c = pc(d, []uint{2, 1}, 3, "rate", []int{0, 2}, []int{2, 2}, "pool", "")
				c.Fault = true
				add(c)
			}
			c = pc("v2", []uint{3, 2, 1}, 4, "rate", []int{2}, []int{2}, "rr", "preclosed")
			c.Fault = true
			add(c)
			c = pc("v1", []uint{3, 2, 1}, 4, "rate", []int{2}, []int{2}, "rr", "preclosed")
			c.Fault = true
			add(c)
		}
	case "C17":
		scripts()
		// a discipline created without inputs, all of them added afterwards
		add(pc("v1", []uint{2, 1}, 2, "fair", []int{2}, []int{2, 1}, "rr", "fromempty"))
		add(pc("v1", []uint{3, 2, 1}, 3, "fair", []int{0, 1, 1}, []int{1, 1, 1}, "pool", "fromempty"))
		// GracefulStop() pending on open inputs, ended by removing them
		for _, env := range []string{"rr", "pool"} {
			g := pc("v1", []uint{2, 1}, 2, "fair", []int{2}, []int{2, 1}, env, "gracefulfirst")
			add(g)
			g = pc("v1", []uint{3, 2, 1}, 3, "fair", []int{1}, []int{1, 0, 1}, env, "gracefulfirst")
			add(g)
		}
		scriptsAll()
		// "after AddInput returns, elements of ch are delivered" while the other inputs are
		// saturated for ever: new priority, replaced channel, removed and registered again
		for _, e := range []struct {
			ops []int
			n   []int
		}{{[]int{0}, []int{-1, -1}}, {[]int{0}, []int{-1, 1}}, {[]int{1}, []int{1, -1}}, {[]int{3, 5}, []int{-1, 2}}, {[]int{2, 4}, []int{2, -1}}} {
			c := pc("v1", []uint{2, 1}, 2, "fair", []int{2}, e.n, "rr", "mixed")
			c.Script, c.Ops = len(e.ops), e.ops
			add(c)
		}
	case "C08", "C09", "C10", "C11":
		jc := func(disc string, j int, nocopy bool, cp int, n int, timeout int64, inacc uint, pauses, delays, retain []int64) Cfg {
			c := Cfg{Harness: "join", Disc: disc, J: j, NoCopy: nocopy, Cap: []int{cp}, N: []int{n}, Timeout: timeout, Inacc: inacc, Pauses: pauses, Delays: delays, Retain: retain, Bound: -1}
			if disc == "unite2" {
				switch j {
				case 1:
					c.Lens = []int{0, 1, 2}
				case 2:
					c.Lens = []int{0, 1, 2, 3}
				default:
					c.Lens = []int{0, 1, j - 1, j, j + 1}
				}
			}
			return c
		}
		switch prop {
		case "C08":
			for _, disc := range []string{"join2", "unite2", "join1"} {
				// copy mode: keep and scribble; no-copy: retain while producer pushes and ticks fire
				add(jc(disc, 2, false, 2, 5, 0, 0, nil, nil, nil))
				add(jc(disc, 2, false, 1, 4, 4, 25, []int64{0, 5}, []int64{0, 3}, nil))
				add(jc(disc, 2, true, 2, 5, 0, 0, nil, nil, []int64{0, 1}))
				add(jc(disc, 2, true, 1, 4, 4, 25, []int64{0, 2}, []int64{0}, []int64{0, 6}))
				add(jc(disc, 3, true, 0, 5, 4, 50, []int64{0, 5}, []int64{0}, []int64{0, 5}))
			}
			// unite, producer reusing two blocks over an unbuffered input (legal: see join.go)
			for _, j := range []int{1, 2} {
				r := jc("unite2", j, false, 0, 6, 0, 0, nil, nil, nil)
				r.Mode = "reuse"
				add(r)
				r = jc("unite2", j, false, 0, 5, 4, 25, []int64{0, 5}, []int64{0, 3}, nil)
				r.Mode = "reuse"
				add(r)
			}
			c := jc("join2", 2, true, 1, 3, 4, 25, []int64{0, 5}, []int64{0}, []int64{0, 5})
			c.Late, c.Horizon = 1, 30
			add(c)
			c = jc("join2", 2, false, 1, 3, 4, 25, []int64{0, 5}, []int64{0, 2}, nil)
			c.Late, c.Horizon = 1, 30
			add(c)
			if !quick {
				for _, disc := range []string{"join2", "unite2", "join1"} {
					add(jc(disc, 3, false, 2, 8, 4, 25, []int64{0, 1, 5}, []int64{0, 3, 6}, nil))
					add(jc(disc, 3, true, 1, 7, 4, 50, []int64{0, 3}, []int64{0, 2}, []int64{0, 3, 6}))
					c := jc(disc, 2, true, 1, 4, 4, 25, []int64{0, 5}, []int64{0}, []int64{0, 5})
					c.Late, c.Horizon = 2, 30
					add(c)
					c = jc(disc, 2, false, 1, 4, 4, 25, []int64{0, 5}, []int64{0, 2}, nil)
					c.Late, c.Horizon = 2, 30
					add(c)
				}
			}
			for _, stop := range []string{"stop", "cancel"} {
				for _, mode := range []string{"", "norelease"} {
					c := jc("join1", 2, true, 1, 4, 4, 25, []int64{0, 5}, []int64{0}, []int64{0, 5})
					c.Stop, c.Mode = stop, mode
					add(c)
					c = jc("join1", 2, true, 2, 5, 0, 0, nil, nil, []int64{0, 1})
					c.Stop, c.Mode = stop, mode
					add(c)
				}
			}
		case "C09":
			for _, disc := range []string{"join2", "unite2", "join1"} {
				for _, j := range []int{1, 2, 3} {
					add(jc(disc, j, false, 1, 2*j+1, 0, 0, nil, nil, nil))
				}
				add(jc(disc, 2, true, 0, 5, 0, 0, nil, nil, nil))
				add(jc(disc, 2, false, 1, 5, -3, 25, []int64{0, 4}, []int64{0, 2}, nil)) // negative timeout: wait for ever
				add(jc(disc, 2, false, 1, 4, 4, 25, []int64{0, 1, 5}, []int64{0, 2}, nil))
				add(jc(disc, 3, false, 1, 5, 4, 50, []int64{0, 3, 5}, []int64{0}, nil))
				add(jc(disc, 2, true, 1, 4, 3, 100, []int64{0, 2, 4}, []int64{0}, []int64{0, 4}))
			}
			// unite: short input slices whose capacity exceeds JoinSize
			for _, j := range []int{2, 3} {
				x := jc("unite2", j, false, 1, 2*j+2, 0, 0, nil, nil, nil)
				x.Lens, x.Mode = []int{0, 1, j - 1, j + 1}, "sparecap"
				add(x)
				x = jc("unite2", j, true, 0, 2*j+1, 4, 25, []int64{0, 5}, []int64{0}, nil)
				x.Lens, x.Mode = []int{1, j - 1, j}, "sparecap"
				add(x)
			}
			// unite: oversize slices forwarded while the reader stalls for about a timeout
			for _, nocopy := range []bool{false, true} {
				u := jc("unite2", 2, nocopy, 0, 7, 4, 25, []int64{0}, []int64{0, 5}, nil)
				u.Lens = []int{1, 2, 3}
				add(u)
				u = jc("unite2", 3, nocopy, 1, 8, 4, 50, []int64{0, 1}, []int64{0, 6}, nil)
				u.Lens = []int{1, 3, 4}
				add(u)
			}
			c := jc("join2", 2, false, 1, 3, 4, 25, []int64{0, 5}, []int64{0, 2}, nil)
			c.Late, c.Horizon = 1, 30
			add(c)
			c = jc("unite2", 2, false, 1, 3, 4, 25, []int64{0, 5}, []int64{0}, nil)
			c.Late, c.Horizon = 1, 30
			add(c)
			if !quick {
				c = jc("join2", 2, false, 1, 3, 4, 25, []int64{0, 5}, []int64{0, 2}, nil)
				c.Late, c.Horizon = 2, 30
				add(c)
				add(jc("unite2", 3, false, 1, 7, 4, 25, []int64{0, 5}, []int64{0}, nil))
			}
		case "C10":
			for _, disc := range []string{"join2", "unite2", "join1"} {
				for _, tc := range []struct {
					t     int64
					inacc uint
				}{{8, 25}, {4, 25}, {4, 50}, {3, 100}, {8, 50}} {
					for _, nocopy := range []bool{false, true} {
						c := jc(disc, 3, nocopy, 1, 3, tc.t, tc.inacc, []int64{0, 1, 3, tc.t + 1}, []int64{0}, []int64{0})
						c.Mode = "flush"
						c.Tail = 3 * tc.t
						add(c)
					}
				}
				c := jc(disc, 2, false, 2, 4, 8, 25, []int64{0, 1, 5, 9}, []int64{0}, []int64{0})
				c.Mode, c.Tail = "flush", 20
				add(c)
				// a second reader of the same input channel takes values away at arbitrary moments
				for _, cp := range []int{1, 3} {
					c = jc(disc, 4, false, cp, 5, 4, 25, []int64{0, 1}, []int64{0}, []int64{0})
					c.Mode, c.Tail = "thief", 12
					if disc == "unite2" {
						c.Lens = []int{1}
					}
					add(c)
				}
				// the whole range of TimeoutInaccuracy: divider 100, 10, 3, 2, 1
				for _, tc := range []struct {
					t     int64
					inacc uint
				}{{100, 1}, {10, 10}, {6, 33}, {6, 34}, {5, 51}, {5, 99}} {
					if quick && tc.t == 100 && disc != "join2" {
						continue
					}
					c = jc(disc, 3, false, 1, 2, tc.t, tc.inacc, []int64{0, 1, tc.t - 1}, []int64{0}, []int64{0})
					c.Mode, c.Tail = "flush", 2*tc.t+3
					add(c)
				}
				// a size-triggered pass puts the timeout base off the tick grid, then a straggler:
				// with a fine inaccuracy the bound is tight (Timeout*1.1, Timeout*1.05)
				for _, tc := range []struct {
					t     int64
					inacc uint
				}{{10, 10}, {20, 5}} {
					if quick && tc.t == 20 && disc != "join1" {
						continue
					}
					for _, nocopy := range []bool{false, true} {
						c = jc(disc, 2, nocopy, 1, 3, tc.t, tc.inacc, []int64{0, 1, 2}, []int64{0}, []int64{0})
						c.Mode, c.Tail = "flush", 2*tc.t+3
						if disc == "unite2" {
							c.Lens = []int{1}
						}
						add(c)
					}
				}
				if !quick {
					for _, nocopy := range []bool{false, true} {
						c = jc(disc, 4, nocopy, 2, 6, 8, 25, []int64{0, 1, 3, 9}, []int64{0}, []int64{0})
						c.Mode, c.Tail = "flush", 24
						add(c)
						c = jc(disc, 3, nocopy, 0, 5, 5, 50, []int64{0, 2, 6}, []int64{0}, []int64{0})
						c.Mode, c.Tail = "flush", 15
						add(c)
					}
				}
				// a trickle aligned with the ticker that never fills JoinSize, buffered input
				for _, nocopy := range []bool{false, true} {
					c = jc(disc, 9, nocopy, 2, 7, 4, 25, []int64{0, 1}, []int64{0}, []int64{0})
					c.Mode, c.Tail = "flush", 12
					if disc == "unite2" {
						c.Lens = []int{1}
					}
					add(c)
					c = jc(disc, 9, nocopy, 3, 6, 4, 50, []int64{1, 2}, []int64{0}, []int64{0})
					c.Mode, c.Tail = "flush", 12
					if disc == "unite2" {
						c.Lens = []int{1}
					}
					add(c)
				}
			}
		case "C11":
			// input slices with spare capacity that holds later, still pending input
			for _, fl := range []int{1, 2} {
				for _, nocopy := range []bool{false, true} {
					add(Cfg{Harness: "join", Disc: "unite2", J: 3, NoCopy: nocopy, Cap: []int{1}, N: []int{8}, Lens: []int{fl}, Mode: "interleave", Bound: -1})
				}
			}
			for _, j := range []int{2, 3} {
				x := jc("unite2", j, false, 1, 2*j+2, 0, 0, nil, nil, nil)
				x.Lens, x.Mode = []int{0, 1, j - 1, j + 1}, "sparecap"
				add(x)
			}
			for _, j := range []int{1, 2, 3} {
				for _, nocopy := range []bool{false, true} {
					add(jc("unite2", j, nocopy, 1, 2*j+2, 0, 0, nil, nil, nil))
					add(jc("unite2", j, nocopy, 0, 2*j+1, 4, 25, []int64{0, 5}, []int64{0}, nil))
				}
			}
			c := jc("unite2", 2, false, 1, 4, 4, 25, []int64{0, 5}, []int64{0, 3}, nil)
			c.Late, c.Horizon = 1, 30
			add(c)
			if !quick {
				for _, nocopy := range []bool{false, true} {
					add(jc("unite2", 4, nocopy, 2, 10, 0, 0, nil, nil, nil))
					add(jc("unite2", 3, nocopy, 1, 8, 4, 50, []int64{0, 3, 5}, []int64{0, 4}, nil))
				}
				c = jc("unite2", 2, true, 1, 4, 4, 25, []int64{0, 5}, []int64{0, 3}, []int64{0, 5})
				c.Late, c.Horizon = 2, 30
				add(c)
			}
		}
	case "C04", "C12":
		lc := func(q uint64, i int64, cp, n int, pauses, delays []int64, mode string) Cfg {
			return Cfg{Harness: "limit", Q: q, I: i, Cap: []int{cp}, N: []int{n}, Pauses: pauses, Delays: delays, Mode: mode, Bound: -1}
		}
		if prop == "C04" {
			for _, q := range []uint64{1, 2, 3} {
				for _, i := range []int64{2, 3} {
					n := int(2*q + 1)
					if quick && n > 5 {
						n = 5 // the 7-element variants belong to the thorough tier
					}
					add(lc(q, i, 0, n, []int64{0, 1, i}, []int64{0, 1}, ""))
					add(lc(q, i, int(q)+1, n, []int64{0, 3 * i}, []int64{0, i}, ""))
					add(lc(q, i, 1, n, []int64{0, 1}, []int64{0, 1, i}, ""))
				}
			}
			// intervals at the top of the type ("pass Quantity elements, then nothing")
			for _, i := range []int64{1<<63 - 1, 1<<63 - 2, 1 << 62} {
				add(lc(2, i, 4, 4, nil, []int64{0}, "prefill"))
				add(lc(1, i, 0, 2, []int64{0, 5}, []int64{0, 2}, "")) // two rounds: a third would lie beyond the clock's range
				// real clocks always advance between two reads: one late tick anywhere
				l := lc(2, i, 3, 3, nil, []int64{0}, "prefill")
				l.Late, l.Horizon = 1, 3
				add(l)
			}
			// the first calls of Output() come from two goroutines at once
			add(lc(1, 3, 2, 3, []int64{0, 1}, []int64{0, 1}, "outputs"))
			add(lc(2, 2, 0, 4, []int64{0, 2}, []int64{0}, "outputs"))
			// prefilled bursts
			add(lc(2, 3, 7, 7, nil, []int64{0, 1, 3}, "prefill"))
			add(lc(3, 2, 10, 10, nil, []int64{0, 2}, "prefill"))
			c := lc(2, 3, 1, 4, []int64{0, 1, 3}, []int64{0, 1}, "")
			c.Late, c.Horizon = 1, 20
			add(c)
			c = lc(1, 2, 0, 3, []int64{0, 2}, []int64{0, 1}, "")
			c.Late, c.Horizon = 1, 12
			add(c)
			if !quick {
				add(lc(3, 3, 4, 10, []int64{0, 1, 9}, []int64{0, 1, 3}, ""))
				c = lc(2, 3, 1, 5, []int64{0, 1, 3}, []int64{0, 1}, "")
				c.Late, c.Horizon = 2, 25
				add(c)
			}
		} else {
			for _, q := range []uint64{1, 2, 3} {
				for n := 0; n <= int(3*q+1); n++ {
					add(lc(q, 3, n+1, n, nil, []int64{0}, "prefill"))
					if n%2 == 0 {
						add(lc(q, 3, 0, n, []int64{0}, []int64{0}, "prefill"))
					}
				}
				add(lc(q, 2, 1, int(2*q+1), []int64{0, 1, 2}, []int64{0, 1}, ""))
				add(lc(q, 2, 0, int(2*q), []int64{0, 3}, []int64{0, 2}, ""))
			}
			// quantities at the top of the type: everything passes at once
			for _, q := range []uint64{1 << 62, 1 << 63, 1<<63 + 1, 1<<64 - 1} {
				add(lc(q, 3, 4, 3, nil, []int64{0}, "prefill"))
				add(lc(q, 2, 0, 2, []int64{0, 1}, []int64{0, 1}, ""))
			}
			// arbitrary arrival patterns, prompt consumer: no element is held back beyond the rate constraint
			for _, q := range []uint64{1, 2, 3} {
				add(lc(q, 4, 0, int(q)+2, []int64{0, 1, 6, 9}, []int64{0}, ""))
				add(lc(q, 4, 2, int(q)+2, []int64{0, 2, 5}, []int64{0}, ""))
			}
			c := lc(2, 3, 1, 4, []int64{0, 1, 3}, []int64{0, 1}, "")
			c.Late, c.Horizon = 1, 20
			add(c)
			add(lc(1, 3, 2, 3, []int64{0, 1}, []int64{0, 1}, "outputs"))
			add(lc(2, 2, 0, 4, []int64{0, 2}, []int64{0}, "outputs"))
			// intervals of seconds (virtual time): the writer is blocked on the unbuffered
			// input for the whole pause between two rounds
			add(lc(1, 2500000000, 0, 4, []int64{0}, []int64{0}, ""))
			add(lc(2, 3000000000, 0, 5, []int64{0, 1000000000}, []int64{0, 500000000}, ""))
			add(lc(1, 1000000001, 1, 3, []int64{0, 999999999}, []int64{0}, ""))
			// fan-out: a second goroutine reads the same input channel
			for _, q := range []uint64{1, 2, 3} {
				t := lc(q, 3, 3, 4, []int64{0, 2}, []int64{0, 1}, "thief")
				t.R = 2
				add(t)
				t = lc(q, 2, 4, 4, nil, []int64{0}, "thief")
				add(t)
			}
		}
	case "C13":
		// re-entrancy of the conversions (Engine A part; the input domain is Engine B's)
		add(Cfg{Harness: "rate2", Bound: -1})
	case "C20":
		add(Cfg{Harness: "rate2", Bound: -1})
		rc := func(disc string, mod func(c *Cfg)) {
			c := Cfg{Harness: "race", Disc: disc, P: []uint{2, 1}, H: 2, Cap: []int{1}, N: []int{2}, J: 2, Bound: -1}
			mod(&c)
			add(c)
		}
		rc("v2", func(c *Cfg) {})
		rc("v2", func(c *Cfg) { c.Cap = []int{0}; c.N = []int{1} })
		rc("s2", func(c *Cfg) { c.N = []int{1} })
		rc("v1", func(c *Cfg) { c.N = []int{1} })
		rc("v1", func(c *Cfg) { c.N = []int{1}; c.Script = 1 })
		rc("v1", func(c *Cfg) { c.N = []int{1}; c.Stop = "stop"; c.OutCap, c.FbCap = 1, 1 })
		rc("v1", func(c *Cfg) { c.N = []int{1}; c.Stop = "cancel" })
		rc("v1", func(c *Cfg) { c.N = []int{1}; c.Script = 2 })
		rc("v1", func(c *Cfg) { c.N = []int{1}; c.Script = 2; c.Mode = "unbufadd" }) // two goroutines add unbuffered inputs to a discipline that has none
		rc("v1", func(c *Cfg) { c.N = []int{1}; c.Stop = "both" })
		rc("s1", func(c *Cfg) { c.N = []int{1} })
		rc("s1", func(c *Cfg) { c.N = []int{1}; c.Stop = "stop" })
		rc("s1", func(c *Cfg) { c.N = []int{1}; c.Stop = "cancel" })
		for _, nocopy := range []bool{false, true} {
			rc("join2", func(c *Cfg) { c.N = []int{5}; c.NoCopy = nocopy })
			rc("join2", func(c *Cfg) { c.N = []int{4}; c.NoCopy = nocopy; c.Timeout = 4; c.Cap = []int{0} })
			rc("unite2", func(c *Cfg) { c.N = []int{4}; c.NoCopy = nocopy; c.Timeout = 4 })
			rc("unite2", func(c *Cfg) { c.N = []int{5}; c.NoCopy = nocopy; c.J = 3 })
			rc("join1", func(c *Cfg) { c.N = []int{4}; c.NoCopy = nocopy })
			rc("join1", func(c *Cfg) { c.N = []int{4}; c.NoCopy = nocopy; c.Stop = "stop"; c.Timeout = 4 })
			rc("join1", func(c *Cfg) { c.N = []int{4}; c.NoCopy = nocopy; c.Stop = "cancel" })
		}
		rc("limit", func(c *Cfg) { c.Q, c.I, c.N = 2, 3, []int{5} })
		rc("limit", func(c *Cfg) { c.Q, c.I, c.N, c.Cap = 1, 2, []int{3}, []int{0} })
		if !quick {
			rc("v2", func(c *Cfg) { c.P = []uint{3, 2, 1}; c.H = 3; c.N = []int{1} })
			rc("v2", func(c *Cfg) { c.N = []int{3}; c.Cap = []int{2} })
			rc("s2", func(c *Cfg) { c.N = []int{2} })
			rc("v1", func(c *Cfg) { c.N = []int{2}; c.Script = 1 })
		}
	case "C16":
		if !quick {
			for _, stop := range []string{"stop", "cancel", "both"} {
				for _, mode := range []string{"", "norelease", "noread"} {
					c := pc("v1", []uint{3, 2, 1}, 3, "fair", []int{2}, []int{2, 1, 1}, "pool", mode)
					c.Stop = stop
					add(c)
					c = pc("v1", []uint{2, 1}, 3, "rate", []int{0, 2}, []int{2, 2}, "rr", mode)
					c.Stop, c.OutCap, c.FbCap = stop, 2, 2
					add(c)
				}
				c := pc("s1", []uint{3, 2, 1}, 3, "fair", []int{2}, []int{1, 1, 1}, "", "norelease")
				c.Stop = stop
				add(c)
				j := Cfg{Harness: "join", Disc: "join1", J: 3, NoCopy: true, Cap: []int{2}, N: []int{7}, Stop: stop, Timeout: 4, Pauses: []int64{0, 3, 5}, Delays: []int64{0, 5}, Retain: []int64{0, 5}, Bound: -1, Graph: true}
				add(j)
			}
		}
		// the context already cancelled at creation; Stop() more than once
		for _, stop := range []string{"precancel", "twice"} {
			{
				c := pc("s1", []uint{2, 1}, 2, "fair", []int{2}, []int{2, 1}, "", "")
				c.Stop = stop
				add(c)
				c = pc("s1", []uint{1}, 1, "fair", []int{2}, []int{2}, "", "norelease")
				c.Stop = stop
				add(c)
			}
			c := pc("v1", []uint{2, 1}, 2, "fair", []int{2}, []int{2, 1}, "pool", "")
			c.Stop = stop
			add(c)
			c = pc("v1", []uint{2, 1}, 2, "fair", []int{2}, []int{2, 1}, "pool", "norelease")
			c.Stop = stop
			add(c)
		}
		// a faulty divider, nobody reads Err(), then Stop()/cancel
		for _, stop := range []string{"stop", "cancel"} {
			for _, d := range []string{"s1", "v1"} {
				c := pc(d, []uint{2, 1}, 2, "fair", []int{2}, []int{2, 1}, "pool", "")
				c.Stop, c.Fault, c.NoErr = stop, true, true
				add(c)
			}
		}
		// a graceful stop requested while a rough one is under way (in any order), also
		// with inputs that are never closed: the graceful stop alone would never end
		for _, stop := range []string{"stop+graceful", "cancel+graceful"} {
			c := pc("s1", []uint{2, 1}, 2, "fair", []int{2}, []int{1, 1}, "", "")
			c.Stop = stop
			add(c)
			c = pc("s1", []uint{1}, 1, "fair", []int{2}, []int{1}, "", "open")
			c.Stop = stop
			add(c)
			c = pc("v1", []uint{2, 1}, 2, "fair", []int{2}, []int{1, 1}, "pool", "open")
			c.Stop = stop
			add(c)
			// inputs drained, one handler busy for ever, one vacant, graceful stop pending
			c = pc("v1", []uint{2, 1}, 2, "fair", []int{2}, []int{1, 0}, "pool", "norelease")
			c.Stop = stop
			add(c)
			c = pc("v1", []uint{1}, 3, "fair", []int{2}, []int{2}, "pool", "norelease")
			c.Stop = stop
			add(c)
			c = pc("v1", []uint{2, 1}, 2, "fair", []int{2}, []int{2, 1}, "pool", "norelease")
			c.Stop = stop
			add(c)
		}
		// Stop() and cancel() racing from two goroutines
		for _, mode := range []string{"", "norelease"} {
			c := pc("v1", []uint{2, 1}, 2, "fair", []int{2}, []int{2, 1}, "pool", mode)
			c.Stop = "both"
			add(c)
			c = pc("s1", []uint{1}, 1, "fair", []int{2}, []int{2}, "", mode)
			c.Stop = "both"
			add(c)
			add(Cfg{Harness: "join", Disc: "join1", J: 2, NoCopy: true, Cap: []int{1}, N: []int{4}, Stop: "both", Mode: mode, Bound: -1, Graph: true})
		}
		for _, stop := range []string{"stop", "cancel"} {
			for _, mode := range []string{"", "norelease", "noread"} {
				for _, h := range []uint{1, 2} {
					c := pc("v1", []uint{2, 1}, h, "fair", []int{2}, []int{2}, "pool", mode)
					if h == 1 {
						c.P, c.N = []uint{1}, []int{3}
						c.Cap = []int{3}
					}
					c.Stop = stop
					c.Graph = true
					add(c)
					c.OutCap, c.FbCap = 1, 1
					add(c)
				}
			}
			// producers blocked on unbuffered / full inputs
			c := pc("v1", []uint{2, 1}, 2, "rate", []int{0, 1}, []int{2, 3}, "rr", "")
			c.Stop = stop
			add(c)
			// simplified discipline: Handle busy until its context is cancelled / quick Handle
			for _, mode := range []string{"norelease", ""} {
				c = pc("s1", []uint{2, 1}, 2, "fair", []int{2}, []int{2, 1}, "", mode)
				c.Stop = stop
				add(c)
				c = pc("s1", []uint{1}, 1, "fair", []int{2}, []int{2}, "", mode)
				c.Stop = stop
				add(c)
			}
			// join: Stop before any data, mid slice, output full, waiting for release
			for _, nocopy := range []bool{false, true} {
				for _, mode := range []string{"", "norelease"} {
					if mode == "norelease" && !nocopy {
						continue
					}
					j := Cfg{Harness: "join", Disc: "join1", J: 2, NoCopy: nocopy, Cap: []int{1}, N: []int{4}, Stop: stop, Mode: mode, Bound: -1, Graph: true}
					add(j)
					j.Timeout, j.Pauses, j.Delays = 4, []int64{0, 5}, []int64{0, 5}
					add(j)
					if nocopy && mode == "" {
						// the consumer holds the slice for a while before it signals the release
						j.Timeout, j.Pauses, j.Delays, j.Retain = 0, nil, nil, []int64{0, 5}
						add(j)
					}
				}
			}
		}
	case "C03":
		for _, disc := range []string{"join2", "unite2", "join1"} {
			for _, j := range []int{1, 2, 3} {
				for _, nocopy := range []bool{false, true} {
					for _, cp := range []int{0, 1, j} {
						n := 2*j + 1
						if !quick {
							n = 3*j + 2
						}
						c := Cfg{Harness: "join", Disc: disc, J: j, NoCopy: nocopy, Cap: []int{cp}, N: []int{n}, Bound: -1}
						if disc == "unite2" {
							c.Lens = []int{0, 1, j - 1, j, j + 1}
							if j == 1 {
								c.Lens = []int{0, 1, 2}
							}
							if j == 2 {
								c.Lens = []int{0, 1, 2, 3}
							}
						}
						add(c)
					}
				}
			}
			// the first calls of Output() come from two goroutines at once
			{
				l := Cfg{Harness: "join", Disc: disc, J: 2, NoCopy: true, LazyAcc: true, Cap: []int{1}, N: []int{3}, Bound: -1}
				if disc == "unite2" {
					l.Lens = []int{1, 2}
				}
				add(l)
			}
			x := Cfg{Harness: "join", Disc: disc, J: 2, Cap: []int{1}, N: []int{4}, Timeout: 4, Pauses: []int64{0, 5}, Delays: []int64{0, 2}, Bound: -1, Cross: 60}
			if disc == "unite2" {
				x.Lens = []int{0, 1, 2, 3}
				x.N = []int{3}
			}
			add(x)
			if disc == "unite2" {
				// input slices (also empty ones) whose capacity exceeds JoinSize
				for _, j := range []int{2, 3} {
					for _, nocopy := range []bool{false, true} {
						x := Cfg{Harness: "join", Disc: disc, J: j, NoCopy: nocopy, Cap: []int{1}, N: []int{2*j + 1}, Lens: []int{0, 1, j - 1, j + 1}, Mode: "sparecap", Bound: -1}
						add(x)
					}
				}
				// input slices with spare capacity that holds later, still pending input
				for _, fl := range []int{1, 2} {
					for _, nocopy := range []bool{false, true} {
						for _, j := range []int{3, 4} {
							add(Cfg{Harness: "join", Disc: disc, J: j, NoCopy: nocopy, Cap: []int{1}, N: []int{8}, Lens: []int{fl}, Mode: "interleave", Bound: -1})
						}
					}
				}
			}
			// timed: timeouts fire while the consumer is slow / the output buffer is full
			for _, nocopy := range []bool{false, true} {
				c := Cfg{Harness: "join", Disc: disc, J: 3, NoCopy: nocopy, Cap: []int{0}, N: []int{5}, Timeout: 4, Inacc: 25, Pauses: []int64{0, 5}, Delays: []int64{0, 9}, Bound: -1}
				if disc == "unite2" {
					c.Lens = []int{1, 2}
				}
				add(c)
				c = Cfg{Harness: "join", Disc: disc, J: 2, NoCopy: nocopy, Cap: []int{1}, N: []int{4}, Timeout: 3, Inacc: 100, Pauses: []int64{0, 2, 4}, Delays: []int64{0, 7}, Bound: -1}
				if disc == "unite2" {
					c.Lens = []int{0, 1, 3}
				}
				add(c)
			}
		}
	}
	return out
}

// Rule describes how cases are enumerated and what makes one distinct.
func Rule(prop string) string {
	return "exhaustive depth-first enumeration (by re-execution, with state caching) of all interleavings, select outcomes, Choose values and clock advances of each listed closed system built around the real discipline code; distinct_nontrivial counts distinct terminal observations (delivery sequences x terminal status) summed over configurations"
}

// Assumptions of the checks of a property.
func Assumptions(prop string) []string {
	return []string{
		"code between two virtual-runtime operations is atomic (sound for data-race-free code; data-race freedom is property C20)",
		"the source rewrite (vxform) and the virtual runtime (vrt) preserve Go channel/select/time semantics; vrt is differentially tested against native channels",
		"bounded configurations as listed in coverage.per_configuration",
	}
}

// accepted: every configured priority gets a non-zero share of h.
func accepted(p []uint, h uint, div string) bool {
	d := map[uint]uint{}
	dividerOf(div)(p, h, d)
	for _, q := range p {
		if d[q] == 0 {
			return false
		}
	}
	return true
}
