package harness

// Catalogue returns the configurations explored for a property and tier.
func Catalogue(prop, tier string) []Cfg {
	quick := tier != "thorough"
	var out []Cfg
	add := func(c Cfg) {
		c.Prop = prop
		if c.BudgetS == 0 {
			if quick {
				c.BudgetS = 60
			} else {
				c.BudgetS = 600
			}
		}
		out = append(out, c)
	}
	switch prop {
	case "C03":
		for _, disc := range []string{"join2", "unite2", "join1"} {
			for _, j := range []int{1, 2, 3} {
				for _, nocopy := range []bool{false, true} {
					for _, cp := range []int{0, 1, j} {
						n := 2*j + 1
						if !quick {
							n = 3*j + 2
						}
						c := Cfg{Harness: "join", Disc: disc, J: j, NoCopy: nocopy, Cap: []int{cp}, N: []int{n}, Bound: -1}
						if disc == "unite2" {
							c.Lens = []int{0, 1, j - 1, j, j + 1}
							if j == 1 {
								c.Lens = []int{0, 1, 2}
							}
							if j == 2 {
								c.Lens = []int{0, 1, 2, 3}
							}
						}
						add(c)
					}
				}
			}
		}
	}
	return out
}

// Rule describes how cases are enumerated and what makes one distinct.
func Rule(prop string) string {
	return "exhaustive depth-first enumeration (by re-execution, with state caching) of all interleavings, select outcomes, Choose values and clock advances of each listed closed system built around the real discipline code; distinct_nontrivial counts distinct terminal observations (delivery sequences x terminal status) summed over configurations"
}

// Assumptions of the checks of a property.
func Assumptions(prop string) []string {
	return []string{
		"code between two virtual-runtime operations is atomic (sound for data-race-free code; data-race freedom is property C20)",
		"the source rewrite (vxform) and the virtual runtime (vrt) preserve Go channel/select/time semantics; vrt is differentially tested against native channels",
		"bounded configurations as listed in coverage.per_configuration",
	}
}
