package harness

import (
	"fmt"
	"math/big"
	"time"

	"cqosverif/explore"
	"cqosverif/vrt"

	limit2 "github.com/akramarenkov/cqos/v2/limit"
)

// Closed system for the re-entrancy of the Rate conversions (C13 under
// concurrent use, and C20): two threads convert different rates at the same
// time. On the unchanged code a conversion contains no synchronisation
// operation, so each call is one atomic step; the harness exists for changes
// that introduce shared scratch state (a package-level buffer, a sync.Pool, a
// cache): every interleaving of the synchronisation operations such a change
// brings in is explored and every result is compared with the reference.

type rateCase struct {
	I   int64
	Q   uint64
	Min int64
}

var rateCases = []rateCase{
	{126, 18013, int64(18 * time.Millisecond)},
	{84, 12013, int64(12 * time.Millisecond)},
	{41, 7, 20},
	{int64(time.Second), 1e4, int64(10 * time.Millisecond)},
	{int64(time.Hour), 1844674407371, int64(10 * time.Millisecond)},
	{1000, 3, 0},
}

func refRate(c rateCase) (limit2.Rate, bool) {
	fl := c.I / int64(c.Q)
	if fl > c.Min || (fl == c.Min && fl != 0) {
		return limit2.Rate{Interval: time.Duration(fl), Quantity: 1}, true
	}
	if c.Min == 0 {
		return limit2.Rate{}, false
	}
	q := new(big.Int).Quo(new(big.Int).Mul(new(big.Int).SetUint64(c.Q), big.NewInt(c.Min)), big.NewInt(c.I))
	if !q.IsUint64() {
		return limit2.Rate{}, false
	}
	return limit2.Rate{Interval: time.Duration(c.Min), Quantity: q.Uint64()}, true
}

func init() { Register("rate2", buildRate2) }

func buildRate2(c Cfg) *explore.Scenario {
	opt := vrt.Options{Clock: vrt.ClockNone, KeyHistory: true, MaxSteps: 2000}
	return &explore.Scenario{Name: "rate2", Config: c.String(), Opt: opt, Build: func(w *vrt.World) *explore.Instance {
		calls := 0
		body := func() {
			for th := 0; th < 2; th++ {
				th := th
				vrt.Go(fmt.Sprintf("converter%d", th), nil, func() {
					for k := 0; k < 3; k++ {
						rc := rateCases[(th*3+k)%len(rateCases)]
						want, ok := refRate(rc)
						got, err := limit2.Rate{Interval: time.Duration(rc.I), Quantity: rc.Q}.Recalculate(time.Duration(rc.Min))
						if !vrt.RaceBuild {
							calls++
						}
						if (err == nil) != ok || got != want {
							w.Fail("C13: under concurrent use Rate{%d,%d}.Recalculate(%d) returned %+v, %v instead of %+v (ok=%v)", rc.I, rc.Q, rc.Min, got, err, want, ok)
						}
					}
				})
			}
		}
		return &explore.Instance{Body: body,
			Terminal: func(w *vrt.World, out vrt.Outcome) string {
				if out != vrt.Done {
					return "C13: the conversions do not finish: " + w.Describe()
				}
				return ""
			},
			Observe:  func(w *vrt.World) string { return fmt.Sprintf("calls=%d", calls) },
			Counters: func() map[string]int { return map[string]int{"conversions": calls} },
		}
	}}
}
