package harness

import (
	"fmt"
	"time"
	"unsafe"

	"cqosverif/explore"
	"cqosverif/vrt"
	"cqosverif/vrt/vcontext"
	"cqosverif/vrt/vtime"

	join1 "github.com/akramarenkov/cqos/join"
	join2 "github.com/akramarenkov/cqos/v2/join"
	unite2 "github.com/akramarenkov/cqos/v2/join/unite"
)

// Closed system for the join / unite disciplines (C03, C08, C09, C10, C11, and the
// join part of C16/C19).
//
//	producer: for every input segment (join: one element; unite: a slice whose
//	          length is Choose'n from Lens) Choose a pause, sleep, send; then
//	          sleep Tail and close the input.
//	consumer: Choose a delay, sleep, receive; copy mode: check, keep and scribble;
//	          no-copy mode: snapshot, Choose a retention time, sleep, compare,
//	          release.
//	v1 only:  optional thread calling Stop() / cancel() at any point.

const sentinel = -77

type joinMon struct {
	f   failer
	cfg Cfg
	J   int
	T   int64 // timeout in ns (0 = none)
	div int64

	in, out, rel *vrt.ChanState

	segs               []int // lengths of the input segments written so far (producer)
	written            int   // elements written
	accepted           int   // elements accepted by the discipline
	accAt              []int64
	next               int // next element index expected on the output
	nslices            int
	lastAt             int64 // time of previous delivery (or creation)
	prevShort          bool  // previous slice was not maximal (untimed: must have been final)
	outstanding        bool
	releasing          bool
	inClosed           bool
	outClosed          bool
	stopped            bool // v1: Stop returned / cancel issued
	stopReturned       bool
	deliveredAfterStop bool
	timeoutsFired      int
	shortSlices        int
	heldDuringTick     int
	sizes              []int
}

func (m *joinMon) Hash() uint64 {
	h := vrt.Mix(uint64(m.written), uint64(m.accepted), uint64(m.next), hashInts(m.segs))
	b := uint64(0)
	for i, f := range []bool{m.prevShort, m.outstanding, m.releasing, m.inClosed, m.outClosed, m.stopped, m.stopReturned} {
		if f {
			b |= 1 << uint(i)
		}
	}
	h = vrt.Mix(h, b)
	now := m.f.w.Clock
	if m.T > 0 {
		age := now - m.lastAt
		if age > m.T {
			age = m.T
		}
		h = vrt.Mix(h, uint64(age))
		if want(m.cfg, "C10") {
			for i := m.next; i < len(m.accAt); i++ {
				h = vrt.Mix(h, uint64(now-m.accAt[i]))
			}
		}
	}
	return h
}

// segment structure helpers: boundary positions of input segments
func (m *joinMon) isBoundary(pos int) bool {
	p := 0
	if pos == 0 {
		return true
	}
	for _, l := range m.segs {
		p += l
		if p == pos {
			return true
		}
		if p > pos {
			return false
		}
	}
	return false
}

// segLenAt returns the length of the segment starting at pos (-1 if none known).
func (m *joinMon) segLenAt(pos int) int {
	p := 0
	for _, l := range m.segs {
		if l == 0 {
			continue
		}
		if p == pos {
			return l
		}
		p += l
	}
	return -1
}

func (m *joinMon) OnEvent(w *vrt.World, ev *vrt.Event) {
	switch {
	case ev.Kind == vrt.EvClock:
		if want(m.cfg, "C10") && (m.cfg.Mode == "flush" || m.cfg.Mode == "thief") && m.T > 0 {
			m.checkFlush(w)
		}
		if m.outstanding {
			m.heldDuringTick++
		}
	case ev.Kind == vrt.EvClose && ev.Ch == m.in:
		m.inClosed = true
	case ev.Kind == vrt.EvClose && ev.Ch == m.out:
		m.outClosed = true
	case ev.T != nil && ev.T.Lib && ev.Kind == vrt.EvRecv && ev.Ch == m.in && ev.OK:
		n := 1
		if s, ok := ev.Val.([]int); ok {
			n = len(s)
		}
		for i := 0; i < n; i++ {
			m.accAt = append(m.accAt, w.Clock)
		}
		m.accepted += n
	case ev.T != nil && ev.T.Lib && ev.Kind == vrt.EvSend && ev.Ch == m.out:
		m.onDeliver(w, ev)
	case ev.Kind == vrt.EvSend && m.releasing && !ev.T.Lib && m.rel == nil:
		// v2: the consumer's Release() is the first send it performs after announcing it
		m.releasing = false
		m.outstanding = false
	case ev.Kind == vrt.EvSend && m.rel != nil && ev.Ch == m.rel:
		m.releasing = false
		m.outstanding = false
	}
}

func (m *joinMon) checkFlush(w *vrt.World) {
	for i := m.next; i < m.accepted; i++ {
		age := w.Clock - m.accAt[i]
		if age*m.div > m.T*(m.div+1) {
			m.f.fail("C10", "element %d accepted at %d is still inside the discipline at %d: age %d > Timeout %d * (1+1/%d) although the consumer is ready", i, m.accAt[i], w.Clock, age, m.T, m.div)
		}
	}
}

func (m *joinMon) onDeliver(w *vrt.World, ev *vrt.Event) {
	var s []int
	if !vrt.RaceBuild {
		s = ev.Val.([]int)
	}
	now := w.Clock
	if m.stopReturned {
		m.f.fail("C16", "slice %v written to the output after Stop returned", s)
	}
	if m.outstanding {
		m.f.fail("C08", "no-copy mode: slice %v written to the output before the previous one was released", s)
	}
	if vrt.RaceBuild {
		m.nslices++
		return
	}
	m.sizes = append(m.sizes, len(s))
	if isRough(m.cfg) {
		// rough termination: what is delivered is an in-order duplicate-free
		// subsequence of what was written (C16); completeness is not required
		for _, v := range s {
			v-- // element values are index+1
			if v < m.next || v >= m.written {
				m.f.fail("C16", "delivered %v is not an in-order duplicate-free subsequence of the written elements (next admissible %d, written %d)", s, m.next, m.written)
				break
			}
			m.next = v + 1
		}
		m.nslices++
		m.lastAt = now
		if m.cfg.NoCopy {
			m.outstanding = true
		}
		return
	}
	if len(s) == 0 {
		m.f.fail("C03", "empty output slice")
	}
	for i, v := range s {
		if v != m.next+i+1 {
			m.f.fail("C03", "output slice %d is %v but the input stream continues with element %d at offset %d (loss, duplication or reordering; element values are 1, 2, 3, ...)", m.nslices, s, m.next+i+1, i)
			if m.cfg.Disc == "unite2" {
				m.f.fail("C11", "output slice %d is %v: the input slice holding element %d does not appear wholly and contiguously in it (input slice lengths %v)", m.nslices, s, m.next+i+1, m.segs)
			}
			break
		}
	}
	if m.next+len(s) > m.accepted {
		m.f.fail("C03", "output slice %v contains elements the discipline has not accepted", s)
	}
	unite := m.cfg.Disc == "unite2"
	maximal := false
	if !unite {
		if len(s) > m.J {
			m.f.fail("C03", "join slice %v longer than JoinSize %d", s, m.J)
		}
		maximal = len(s) == m.J
	} else {
		// segments must not be split: start and end are segment boundaries
		if !m.isBoundary(m.next) || !m.isBoundary(m.next+len(s)) {
			m.f.fail("C11", "output slice %v (stream offset %d) splits an input slice; input slice lengths %v", s, m.next, m.segs)
		}
		first := m.segLenAt(m.next)
		if len(s) > m.J {
			if first != len(s) {
				m.f.fail("C03", "unite slice %v exceeds JoinSize %d but is not exactly one input slice (input slice lengths %v)", s, m.J, m.segs)
				m.f.fail("C11", "oversize input slice not delivered on its own: output %v, input slice lengths %v", s, m.segs)
			}
		} else if first >= m.J && first != len(s) {
			m.f.fail("C11", "input slice of %d >= JoinSize elements not delivered as an output of its own: output %v", first, s)
		}
		// maximal: reached J, or the next input slice (already written) would not fit
		if len(s) >= m.J {
			maximal = true
		} else if nl := m.segLenAt(m.next + len(s)); nl > 0 && len(s)+nl > m.J && m.accepted >= m.next+len(s)+nl {
			maximal = true
		}
	}
	// C09: a non-maximal slice that was not justified by the timeout must be the final one
	if m.prevShort {
		m.f.fail("C09", "a non-maximal slice that no timeout justified was followed by another slice %v, so it was not the final one (sizes so far %v, JoinSize %d, input slice lengths %v, Timeout %d, previous deliveries ended at %d)", s, m.sizes, m.J, m.segs, m.T, m.lastAt)
	}
	justified := false
	if !maximal {
		m.shortSlices++
		if m.T > 0 && now-m.lastAt >= m.T {
			justified = true
			m.timeoutsFired++
		}
	}
	m.prevShort = !maximal && !justified
	m.next += len(s)
	m.nslices++
	m.lastAt = now
	if m.cfg.NoCopy {
		m.outstanding = true
	}
}

type joinAdapter struct {
	out     <-chan []int
	getOut  func() <-chan []int
	obj     any
	release func()
	stop    func()
	send    func(seg []int)
	closeIn func()
	steal   func() bool // another reader of the same input channel takes one value; false when closed
}

const msUnit = int64(10 * time.Millisecond)

func joinUnit(c Cfg) int64 {
	if c.Disc == "join1" {
		return msUnit
	}
	return 1
}

func init() { Register("join", buildJoin) }

func buildJoin(c Cfg) *explore.Scenario {
	unit := joinUnit(c)
	opt := vrt.Options{Clock: vrt.ClockLapse, LateBudget: c.Late, Unit: unit, Horizon: c.Horizon * unit, KeyHistory: c.KeyHistory, MaxSteps: c.MaxSteps,
		ResetDepth: libResetDepth}
	if opt.MaxSteps == 0 {
		opt.MaxSteps = 3000
	}
	return &explore.Scenario{Name: "join", Config: c.String(), Opt: opt, Build: func(w *vrt.World) *explore.Instance { return newJoin(c, w) }}
}

func libResetDepth(name string) int {
	switch name {
	case "Discipline.main":
		return 4 // thread wrapper, main, loop, and the helpers loop calls directly
	case "Discipline.handler", "Simple.handler":
		// thread wrapper, handler: the receive at the loop head (v1: also the feedback
		// select, whose pending operation carries the only live local)
		return 2
	}
	return 0
}

type keptSlice struct {
	s        []int
	n        int
	snap     []int
	released bool
}

func newJoin(c Cfg, w *vrt.World) *explore.Instance {
	unit := joinUnit(c)
	m := &joinMon{cfg: c, J: c.J, T: c.Timeout * unit}
	m.f = failer{c, w}
	inacc := c.Inacc
	if inacc == 0 {
		inacc = 25
	}
	m.div = int64(100 / inacc)
	w.Monitors = append(w.Monitors, m)
	total := 0
	if len(c.N) > 0 {
		total = c.N[0]
	}
	capIn := 0
	if len(c.Cap) > 0 {
		capIn = c.Cap[0]
	}
	pauses := c.Pauses
	if len(pauses) == 0 {
		pauses = []int64{0}
	}
	delays := c.Delays
	if len(delays) == 0 {
		delays = []int64{0}
	}
	retain := c.Retain
	if len(retain) == 0 {
		retain = []int64{0}
	}
	var consumerDone, producerDone bool
	var kept []keptSlice
	var newErr error
	var cancel vcontext.CancelFunc

	body := func() {
		var ad joinAdapter
		switch c.Disc {
		case "join2":
			in := vrt.MakeChan[int](capIn)
			m.in = vrt.NameChan[int](in, "in")
			d, err := join2.New(join2.Opts[int]{Input: in, JoinSize: uint(c.J), NoCopy: c.NoCopy, Timeout: time.Duration(c.Timeout * unit), TimeoutInaccuracy: c.Inacc})
			if err != nil {
				newErr = err
				return
			}
			ad = joinAdapter{getOut: d.Output, obj: d, release: d.Release, send: func(seg []int) { vrt.Send(in, seg[0]) }, closeIn: func() { vrt.Close(in) }, steal: func() bool { _, ok := vrt.Recv2(in); return ok }}
		case "unite2":
			in := vrt.MakeChan[[]int](capIn)
			m.in = vrt.NameChan[[]int](in, "in")
			d, err := unite2.New(unite2.Opts[int]{Input: in, JoinSize: uint(c.J), NoCopy: c.NoCopy, Timeout: time.Duration(c.Timeout * unit), TimeoutInaccuracy: c.Inacc})
			if err != nil {
				newErr = err
				return
			}
			ad = joinAdapter{getOut: d.Output, obj: d, release: d.Release, send: func(seg []int) { vrt.Send(in, seg) }, closeIn: func() { vrt.Close(in) }, steal: func() bool { _, ok := vrt.Recv2(in); return ok }}
		case "join1":
			in := vrt.MakeChan[int](capIn)
			m.in = vrt.NameChan[int](in, "in")
			var released chan struct{}
			if c.NoCopy {
				released = vrt.MakeChan[struct{}](0)
				m.rel = vrt.NameChan[struct{}](released, "released")
			}
			o := join1.Opts[int]{Input: in, JoinSize: uint(c.J), Released: released, Timeout: time.Duration(c.Timeout * unit), TimeoutInaccuracy: c.Inacc}
			if c.UserCtx {
				o.Ctx, cancel = newUserCtx()
			} else if c.Stop == "cancel" || c.Stop == "both" {
				o.Ctx, cancel = vcontext.WithCancel(vcontext.Background())
			}
			d, err := join1.New(o)
			if err != nil {
				newErr = err
				return
			}
			ad = joinAdapter{getOut: d.Output, obj: d, release: func() { vrt.Send(released, struct{}{}) }, stop: d.Stop, send: func(seg []int) { vrt.Send(in, seg[0]) }, closeIn: func() { vrt.Close(in) }, steal: func() bool { _, ok := vrt.Recv2(in); return ok }}
		default:
			panic("unknown join discipline " + c.Disc)
		}
		lazy := false
		if c.LazyAcc {
			// nobody has called Output() yet: the monitor learns the channel from the
			// object; the consumer and an observer obtain it themselves, concurrently
			m.out = vrt.PeekChan(ad.obj, "output", "out")
			lazy = m.out != nil
		}
		fetch := func() {
			o := ad.getOut()
			if vrt.StateOf(o) != m.out {
				m.f.fail("C03", "Output() returned a channel other than the one the discipline writes to")
			}
			ad.out = o
		}
		if lazy {
			vrt.Spawn("observer", fetch)
		} else {
			ad.out = ad.getOut()
			m.out = vrt.NameChan(ad.out, "out")
		}
		m.lastAt = w.Clock

		// producer
		vrt.Spawn("producer", func() {
			i := 0
			zeros := 0
			nseg := 0
			reuse := [2][]int{make([]int, total+2), make([]int, total+2)}
			inter := [2][]int{make([]int, total+4), make([]int, total+4)}
			if c.Mode == "interleave" && c.Disc == "unite2" {
				// the pending input is in place up-front (fixed slice length Lens[0])
				fl := c.Lens[0]
				for k := 0; k*fl < total; k++ {
					for x := 0; x < fl && k*fl+x < total; x++ {
						inter[k%2][(k/2)*fl+x] = k*fl + x + 1
					}
				}
			}
			for i < total {
				vrt.Mark(vrt.Mix(uint64(i), hashInts(m.segs)))
				l := 1
				if c.Disc == "unite2" {
					lens := c.Lens
					if zeros >= 2 {
						// at most two empty input slices per run (keeps the run finite)
						lens = nil
						for _, x := range c.Lens {
							if x != 0 {
								lens = append(lens, x)
							}
						}
					}
					l = lens[vrt.Choose(len(lens))]
					if l == 0 {
						zeros++
					}
					if l > total-i {
						l = total - i
					}
				}
				if d := pauses[vrt.Choose(len(pauses))]; d > 0 {
					vtime.Sleep(time.Duration(d * unit))
				}
				var seg []int
				switch {
				case c.Mode == "reuse" && c.Disc == "unite2":
					// the producer alternates two reusable blocks; over an unbuffered input
					// the block sent before the previous one has been processed completely
					// when the previous send returned, so refilling it is legal
					seg = reuse[nseg%2][:l]
				case c.Mode == "interleave" && c.Disc == "unite2":
					// input slices are sub-slices of two larger arrays, taken alternately:
					// the spare capacity of one input slice holds later, still pending input
					seg = inter[nseg%2][(nseg/2)*l : (nseg/2)*l+l]
				case c.Mode == "sparecap":
					// input slices (empty ones too) with spare capacity beyond JoinSize
					seg = make([]int, l, l+c.J+1)
				case l == 0 && zeros%2 == 1:
					seg = nil // a nil slice is a legal empty input slice too
				default:
					seg = make([]int, l)
				}
				nseg++
				for k := range seg {
					seg[k] = i + k + 1
				}
				m.segs = append(m.segs, l)
				m.written += l
				i += l
				ad.send(seg)
			}
			vrt.Mark(vrt.Mix(uint64(i), 0xe0d))
			if t := c.Tail; t > 0 {
				vtime.Sleep(time.Duration(t * unit))
			}
			ad.closeIn()
			producerDone = true
		})

		if c.Mode == "thief" || c.Retain != nil && false {
			// sharing a channel between several readers is legal Go: a second reader
			// takes up to two values from the input at arbitrary moments
			vrt.Spawn("thief", func() {
				for k := 0; k < 2; k++ {
					vrt.Mark(uint64(k) + 0x7e)
					if vrt.Choose(2) == 1 {
						return
					}
					if !ad.steal() {
						return
					}
				}
			})
		}
		// consumer
		vrt.Spawn("consumer", func() {
			if lazy {
				fetch()
			}
			for {
				vrt.Mark(vrt.Mix(uint64(len(kept)), 0xc0))
				if d := delays[vrt.Choose(len(delays))]; d > 0 {
					vtime.Sleep(time.Duration(d * unit))
				}
				s, ok := vrt.Recv2(ad.out)
				if !ok {
					break
				}
				if c.NoCopy {
					snap := append([]int(nil), s...)
					vrt.Mark(vrt.Mix(uint64(len(kept)), 0xc1, hashInts(snap)))
					if d := retain[vrt.Choose(len(retain))]; d > 0 {
						vtime.Sleep(time.Duration(d * unit))
					} else if len(retain) > 1 || c.Late > 0 {
						vrt.Yield()
					}
					if !equalInts(s, snap) {
						m.f.fail("C08", "no-copy mode: delivered slice changed from %v to %v before it was released", snap, s)
						if c.Stop != "" {
							m.f.fail("C16", "no-copy mode, Stop/cancel: the slice the consumer holds (not released) changed from %v to %v: what was delivered is no longer what was written", snap, s)
						}
					}
					kept = append(kept, keptSlice{s: s, n: len(s), snap: snap})
					if c.Mode == "norelease" {
						// v1: the consumer never signals release (Stop must still work)
						vrt.Mark(vrt.Mix(uint64(len(kept)), 0xc3))
						vrt.Recv(vrt.MakeChan[int](0))
					}
					m.releasing = true
					ad.release()
					kept[len(kept)-1].released = true
					continue
				}
				// copy mode: (ii) no sentinel, (iii) disjoint memory, then keep and scribble
				for _, v := range s {
					if v == sentinel {
						m.f.fail("C08", "copy mode: an output slice contains a value the consumer wrote into an earlier slice: %v", s)
					}
				}
				for _, k := range kept {
					if overlaps(k.s, s) {
						m.f.fail("C08", "copy mode: output slice %v shares memory with an earlier output slice", s)
					}
				}
				for i := range s {
					s[i] = sentinel
				}
				// the consumer owns the slice including its spare capacity (append)
				ext := s[:cap(s)]
				for i := len(s); i < len(ext); i++ {
					ext[i] = sentinel
				}
				kept = append(kept, keptSlice{s: s, n: len(s)})
				for _, k := range kept {
					for _, v := range k.s {
						if v != sentinel {
							m.f.fail("C08", "copy mode: a slice kept by the consumer was modified by the discipline after delivery: %v", k.s)
						}
					}
				}
			}
			consumerDone = true
		})

		if c.Stop == "stop" || c.Stop == "both" {
			vrt.Spawn("stopper", func() {
				ad.stop()
				m.stopReturned = true

				if !m.out.Closed {
					m.f.fail("C16", "join Stop() returned but the output channel is not closed")
				}
				m.stopped = true
			})
		}
		if c.Stop == "cancel" || c.Stop == "both" {
			vrt.Spawn("canceller", func() {
				cancel()
				m.stopped = true
			})
		}
	}

	inst := &explore.Instance{Body: body}
	inst.Terminal = func(w *vrt.World, out vrt.Outcome) string {
		if newErr != nil {
			return "harness: constructor failed: " + newErr.Error()
		}
		if out == vrt.Spin {
			return c.Prop + ": livelock: " + w.SpinInfo
		}
		rough := isRough(c)
		if !rough {
			if out != vrt.Done {
				return fmt.Sprintf("%s: the system does not terminate: %s", c.Prop, w.Describe())
			}
			if want(c, "C03") && m.next != total {
				return fmt.Sprintf("C03: input closed and output drained, but only %d of %d elements were delivered", m.next, total)
			}
			if want(c, "C12") && false {
				return ""
			}
		} else {
			// rough stop: the stopper must have returned, the library threads must be gone
			for _, t := range w.Threads {
				if (t.Name == "stopper" || t.Name == "canceller") && !t.Done() {
					return fmt.Sprintf("C16: Stop()/cancel did not complete: %s", w.Describe())
				}
			}
			if (want(c, "C08") || want(c, "C16")) && c.NoCopy && !vrt.RaceBuild {
				// v1: stopped or cancelled before the release signal: the delivered
				// slice is never touched again
				for _, k := range kept {
					if k.released {
						continue // after the release signal the memory is the discipline's again
					}
					if !equalInts(k.s[:k.n], k.snap) {
						return fmt.Sprintf("%s: no-copy mode: a slice delivered as %v and not yet released when the discipline was stopped/cancelled now reads %v", c.Prop, k.snap, k.s[:k.n])
					}
				}
			}
		}
		for _, t := range w.Threads {
			if t.Lib && !t.Done() {
				if want(c, "C19") || want(c, "C16") {
					return fmt.Sprintf("%s: library goroutine %s still alive after termination: %s", c.Prop, t.Name, w.Describe())
				}
			}
		}
		_ = consumerDone
		_ = producerDone
		return ""
	}
	inst.Observe = func(w *vrt.World) string {
		return fmt.Sprintf("sizes=%v segs=%v", m.sizes, m.segs)
	}
	inst.Project = func(w *vrt.World) string {
		return fmt.Sprintf("written=%d accepted=%d next=%d segs=%v short=%v outstanding=%v inClosed=%v outClosed=%v", m.written, m.accepted, m.next, m.segs, m.prevShort, m.outstanding, m.inClosed, m.outClosed)
	}
	inst.Counters = func() map[string]int {
		return map[string]int{"timeout_flushes": m.timeoutsFired, "short_slices": m.shortSlices, "slices": m.nslices, "ticks_while_retained": m.heldDuringTick}
	}
	return inst
}

func equalInts(a, b []int) bool {
	if len(a) != len(b) {
		return false
	}
	for i := range a {
		if a[i] != b[i] {
			return false
		}
	}
	return true
}

func overlaps(a, b []int) bool {
	if cap(a) == 0 || cap(b) == 0 {
		return false
	}
	a0 := uintptr(unsafe.Pointer(unsafe.SliceData(a)))
	a1 := a0 + uintptr(cap(a))*unsafe.Sizeof(int(0))
	b0 := uintptr(unsafe.Pointer(unsafe.SliceData(b)))
	b1 := b0 + uintptr(cap(b))*unsafe.Sizeof(int(0))
	return a0 < b1 && b0 < a1
}
