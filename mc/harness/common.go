// Package harness holds the closed systems built around the real (rewritten)
// cqos disciplines, their monitors and oracles, and the catalogue of
// configurations explored per property and tier.
package harness

import (
	"encoding/json"
	"fmt"
	"sort"
	"strings"
	"time"

	"cqosverif/explore"
	"cqosverif/vrt"
	"cqosverif/vrt/vcontext"
)

// Cfg is the flat configuration record of every harness family; unused fields
// stay zero and are omitted from the rendering.
type Cfg struct {
	Prop    string  `json:"prop"`              // property whose clauses are enforced
	Harness string  `json:"harness"`           // registry name
	Disc    string  `json:"disc,omitempty"`    // discipline variant
	P       []uint  `json:"p,omitempty"`       // priorities
	H       uint    `json:"h,omitempty"`       // handlers quantity
	Div     string  `json:"div,omitempty"`     // fair | rate | low (custom)
	Cap     []int   `json:"cap,omitempty"`     // capacity per input (aligned with P) / [cap] for join
	N       []int   `json:"n,omitempty"`       // items per input / [n]
	Env     string  `json:"env,omitempty"`     // pool | rr (receiver+releaser)
	R       int     `json:"r,omitempty"`       // release budget
	J       int     `json:"j,omitempty"`       // join size
	NoCopy  bool    `json:"nocopy,omitempty"`  //
	Timeout int64   `json:"timeout,omitempty"` // in units
	Inacc   uint    `json:"inacc,omitempty"`   //
	Pauses  []int64 `json:"pauses,omitempty"`  // producer pause alphabet (units)
	Delays  []int64 `json:"delays,omitempty"`  // consumer delay alphabet (units)
	Retain  []int64 `json:"retain,omitempty"`  // consumer retention alphabet (units)
	Lens    []int   `json:"lens,omitempty"`    // unite: slice length alphabet
	Late    int     `json:"late,omitempty"`    // late tick budget
	Horizon int64   `json:"horizon,omitempty"` // units
	Q       uint64  `json:"q,omitempty"`       // limit quantity
	I       int64   `json:"i,omitempty"`       // limit interval (units)
	Stop    string  `json:"stop,omitempty"`    // v1: "", stop, cancel, graceful
	Mode    string  `json:"mode,omitempty"`    // harness specific variant
	Script  int     `json:"script,omitempty"`  // v1 add/remove script depth
	Ops     []int   `json:"ops,omitempty"`     // v1 script: allowed operations (default all)
	Fault   bool    `json:"fault,omitempty"`   // divider fault injection
	Yields  int     `json:"yields,omitempty"`  // handler yields before release
	OutCap  int     `json:"outcap,omitempty"`  // v1: capacity of the user supplied output channel
	FbCap   int     `json:"fbcap,omitempty"`   // v1: capacity of the user supplied feedback channel
	Tail    int64   `json:"tail,omitempty"`    // join: producer pause before closing (units)
	LazyAcc bool    `json:"lazyacc,omitempty"` // accessors (Output, Err) are first called by the consumers themselves, concurrently, not by the creator
	NoErr   bool    `json:"noerr,omitempty"`   // nobody reads Err()
	UserCtx bool    `json:"userctx,omitempty"` // v1: Opts.Ctx is a user-defined Context implementation (not one made by package context)

	Deep       int  `json:"deep,omitempty"`       // history-keyed (no merging by state) exploration cut at this depth: sound against hidden loop-carried locals
	Cross      int  `json:"cross,omitempty"`      // key-mode cross-check: depth of the history-keyed run
	NoFallback bool `json:"nofallback,omitempty"` // no iterative preemption bounding after an unfinished unbounded run
	KeyHistory bool `json:"keyhistory,omitempty"`
	Bound      int  `json:"bound"` // preemption bound, -1 unbounded
	Graph      bool `json:"graph,omitempty"`
	BudgetS    int  `json:"budget_s,omitempty"`
	MaxStates  int  `json:"max_states,omitempty"`
	MaxSteps   int  `json:"max_steps,omitempty"`
}

func (c Cfg) String() string {
	b, _ := json.Marshal(c)
	return string(b)
}

// Builder makes a scenario from a configuration.
type Builder func(c Cfg) *explore.Scenario

var Registry = map[string]Builder{}

func Register(name string, b Builder) { Registry[name] = b }

func want(c Cfg, prop string) bool { return c.Prop == prop || c.Prop == "ALL" }

// ---- small helpers shared by the harnesses ----

func hashInts(xs []int) uint64 {
	h := uint64(len(xs)) + 99
	for _, x := range xs {
		h = vrt.Mix(h, uint64(x))
	}
	return h
}

func hashUints(xs []uint) uint64 {
	h := uint64(len(xs)) + 98
	for _, x := range xs {
		h = vrt.Mix(h, uint64(x))
	}
	return h
}

func hashMapUU(m map[uint]uint) uint64 {
	ks := make([]uint, 0, len(m))
	for k := range m {
		ks = append(ks, k)
	}
	sort.Slice(ks, func(i, j int) bool { return ks[i] < ks[j] })
	h := uint64(97)
	for _, k := range ks {
		h = vrt.Mix(h, uint64(k), uint64(m[k]))
	}
	return h
}

func fmtInts(xs [][]int) string {
	var sb strings.Builder
	for _, s := range xs {
		sb.WriteString(fmt.Sprint(s))
	}
	return sb.String()
}

// failer collects the first violated clause of the property under check.
type failer struct {
	cfg Cfg
	w   *vrt.World
}

func (f *failer) fail(prop string, format string, args ...any) {
	if want(f.cfg, prop) {
		f.w.Fail(prop+": "+format, args...)
	}
}

// userCtx is a Context implemented by the user of the library (legal: Opts.Ctx
// is the interface type). Deriving a cancellable context from it needs a
// watcher goroutine, which must end with the discipline like any other.
type userCtx struct {
	done   chan struct{}
	closed bool
}

func (u *userCtx) Deadline() (time.Time, bool) { return time.Time{}, false }
func (u *userCtx) Done() <-chan struct{}       { return u.done }
func (u *userCtx) Value(any) any               { return nil }
func (u *userCtx) Err() error {
	if u.closed {
		return vcontext.Canceled
	}
	return nil
}

func newUserCtx() (vcontext.Context, vcontext.CancelFunc) {
	u := &userCtx{done: vrt.MakeChan[struct{}](0)}
	vrt.NameChan[struct{}](u.done, "userctx")
	return u, func() {
		if !u.closed {
			u.closed = true
			vrt.Close(u.done)
		}
	}
}
