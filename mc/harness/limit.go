package harness

import (
	"fmt"
	"time"

	"cqosverif/explore"
	"cqosverif/vrt"
	"cqosverif/vrt/vtime"

	limit2 "github.com/akramarenkov/cqos/v2/limit"
)

// Closed system for the limit discipline (C04, C12, C19):
//
//	producer: Choose a pause from Pauses, sleep, send; close at the end
//	          (Mode "prefill": all N elements are in the buffer up-front)
//	consumer: Choose a delay from Delays, sleep, receive, until closed
//
// The rate bound is evaluated at the instant an element leaves the discipline
// (completion of its send on the output), which is the only reading under
// which the statement can hold "however the consumer reads": the output channel
// is buffered, so a consumer that stalls and then drains the buffer receives a
// burst that the discipline has emitted over a long time.

type limitMon struct {
	f                   failer
	cfg                 Cfg
	Q                   int64
	I                   int64
	in                  *vrt.ChanState
	out                 *vrt.ChanState
	sentAt              []int64 // emission times (discipline side)
	recvAt              []int64 // consumer side
	next                int     // next element expected at the output
	nrecv               int
	inClosed, outClosed bool
	closedAt            int64
	written             int
	accepted            int
	bursts              int
	offerAt             []int64 // time each element was offered to the discipline (producer side)
	prompt              bool
	stolen              map[int]bool // mode "thief": elements taken by the other reader of the input
	lastOut             int
}

func (m *limitMon) Hash() uint64 {
	h := vrt.Mix(uint64(m.next), uint64(m.nrecv), uint64(m.written), uint64(m.accepted))
	for _, t := range m.sentAt {
		h = vrt.Mix(h, uint64(t))
	}
	for _, t := range m.recvAt {
		h = vrt.Mix(h, uint64(t))
	}
	if m.inClosed {
		h = vrt.Mix(h, 1)
	}
	for v := range m.stolen {
		h += vrt.Mix(0x57, uint64(v))
	}
	if m.outClosed {
		h = vrt.Mix(h, 2, uint64(m.closedAt))
	}
	return vrt.Mix(h, uint64(m.f.w.Clock))
}

func (m *limitMon) OnEvent(w *vrt.World, ev *vrt.Event) {
	if m.out == nil && ev.T != nil && ev.T.Lib && ev.Ch != nil && ev.Ch != m.in && (ev.Kind == vrt.EvSend || ev.Kind == vrt.EvClose) {
		// mode "outputs": the discipline may emit before anybody has asked for the
		// channel; the only channel it sends on or closes is its output
		m.out = ev.Ch
	}
	switch {
	case ev.Kind == vrt.EvClose && ev.Ch == m.in:
		m.inClosed = true
	case ev.Kind == vrt.EvClose && ev.Ch == m.out:
		m.outClosed = true
		m.closedAt = w.Clock
		if !m.inClosed {
			m.f.fail("C12", "output closed before the input was closed")
		}
		if m.next+len(m.stolen) != m.written || m.in.Len() != 0 {
			m.f.fail("C12", "output closed although only %d of %d written elements were forwarded (%d taken by another reader)", m.next, m.written, len(m.stolen))
		}
	case ev.Kind == vrt.EvRecv && ev.Ch == m.in && ev.T.Lib && ev.OK:
		m.accepted++
	case ev.Kind == vrt.EvSend && ev.Ch == m.out && ev.T.Lib:
		now := w.Clock
		if !vrt.RaceBuild {
			v := ev.Val.(int)
			if m.cfg.Mode == "thief" {
				// another goroutine also reads the input: the output is, in order, exactly
				// what that reader did not take
				if v <= m.lastOut || v >= m.written || m.stolen[v] {
					m.f.fail("C12", "output element %d is %d, which is not an element of the input that is still due (last output %d, %d written, taken by the other reader %v): phantom, duplicate or reordered", m.next, v, m.lastOut, m.written, m.stolen)
				}
				m.lastOut = v
			} else if v != m.next {
				m.f.fail("C12", "output element %d is %d: the output is not the input sequence in order (loss, duplication or reordering)", m.next, v)
			}
		}
		if m.prompt && m.next < len(m.offerAt) {
			// C12, no extra throttling: with a consumer that is always ready an element
			// is delayed only by its own availability, by the element before it, or by the
			// rate constraint relative to the element Quantity places before it
			k := m.next
			bound := m.offerAt[k]
			if k > 0 && m.sentAt[k-1] > bound {
				bound = m.sentAt[k-1]
			}
			if int64(k) >= m.Q {
				rb := m.sentAt[int64(k)-m.Q] + m.I
				if rb < m.sentAt[int64(k)-m.Q] {
					rb = 1<<63 - 1 // saturate (intervals at the top of the type)
				}
				if rb > bound {
					bound = rb
				}
			}
			if now > bound {
				m.f.fail("C12", "element %d left the discipline at %d although it was offered at %d, its predecessor left at %d and the rate constraint (element %d places earlier + Interval %d) allowed it at %d: throttled below the configured rate", k, now, m.offerAt[k], bound, m.Q, m.I, bound)
			}
		}
		m.next++
		m.sentAt = append(m.sentAt, now)
		j := len(m.sentAt)
		if int64(j) > m.Q*(now/m.I+1) {
			m.f.fail("C04", "%d elements have left the output by time %d, more than Quantity %d * (floor(%d/%d)+1)", j, now, m.Q, now, m.I)
		}
		for i := 0; i < j; i++ {
			cnt := int64(j - i)
			wnd := now - m.sentAt[i]
			if cnt > m.Q*(wnd/m.I+2) {
				m.f.fail("C04", "a window of length %d (from %d to %d) contains %d output elements, more than Quantity %d * (floor(W/Interval %d)+2)", wnd, m.sentAt[i], now, cnt, m.Q, m.I)
				break
			}
			if cnt > m.Q {
				m.bursts++
			}
		}
	case ev.Kind == vrt.EvRecv && ev.Ch == m.out && !ev.T.Lib && ev.OK:
		now := w.Clock
		j := int64(m.nrecv)
		m.recvAt = append(m.recvAt, now)
		m.nrecv++
		if m.cfg.Mode == "prefill" {
			// C12: no extra throttling with a prompt consumer: element j (0-based) is
			// delivered by floor(j/Q) intervals
			if now > (j/m.Q)*m.I {
				m.f.fail("C12", "%d elements were available up-front and the consumer is prompt, but element %d was delivered at %d, later than floor(%d/%d)*Interval = %d", m.written, j, now, j, m.Q, (j/m.Q)*m.I)
			}
		}
	}
}

func init() { Register("limit", buildLimit) }

func buildLimit(c Cfg) *explore.Scenario {
	opt := vrt.Options{Clock: vrt.ClockLapse, LateBudget: c.Late, Unit: 1, Horizon: c.Horizon, KeyHistory: true, MaxSteps: c.MaxSteps, ResetDepth: libResetDepth}
	if opt.MaxSteps == 0 {
		opt.MaxSteps = 3000
	}
	return &explore.Scenario{Name: "limit", Config: c.String(), Opt: opt, Build: func(w *vrt.World) *explore.Instance { return newLimit(c, w) }}
}

func newLimit(c Cfg, w *vrt.World) *explore.Instance {
	q := int64(c.Q)
	if c.Q > 1<<40 {
		q = 1 << 40 // huge quantities: the bounds are never reached, keep the arithmetic in range
	}
	m := &limitMon{cfg: c, Q: q, I: c.I, stolen: map[int]bool{}, lastOut: -1}
	m.f = failer{c, w}
	m.prompt = c.Mode != "thief" && c.Late == 0 && (len(c.Delays) == 0 || (len(c.Delays) == 1 && c.Delays[0] == 0))
	w.Monitors = append(w.Monitors, m)
	total := 0
	if len(c.N) > 0 {
		total = c.N[0]
	}
	capIn := 0
	if len(c.Cap) > 0 {
		capIn = c.Cap[0]
	}
	pauses := c.Pauses
	if len(pauses) == 0 {
		pauses = []int64{0}
	}
	delays := c.Delays
	if len(delays) == 0 {
		delays = []int64{0}
	}
	var newErr error
	body := func() {
		in := vrt.MakeChan[int](capIn)
		m.in = vrt.NameChan[int](in, "in")
		if c.Mode == "prefill" && capIn >= total {
			vals := make([]int, total)
			for i := range vals {
				vals[i] = i
			}
			vrt.Prefill(in, vals...)
			vrt.CloseNow(in)
			m.written = total
			m.inClosed = true
			m.offerAt = make([]int64, total)
		}
		d, err := limit2.New(limit2.Opts[int]{Input: in, Limit: limit2.Rate{Interval: time.Duration(c.I), Quantity: c.Q}})
		if err != nil {
			newErr = err
			return
		}
		var out <-chan int
		getOut := func() {
			// Mode "outputs": nobody has called Output() yet; every consumer obtains the
			// channel itself, concurrently with the others (ordinary use: several
			// goroutines ranging over d.Output())
			o := d.Output()
			st := vrt.NameChan(o, "out")
			if m.out == nil {
				m.out = st
			}
			if out == nil {
				out = o
			}
			if o != out || st != m.out {
				m.f.fail("C12", "Output() returned a channel other than the one the discipline writes to (or two calls returned different channels)")
			}
		}
		if c.Mode != "outputs" {
			getOut()
		} else {
			vrt.Spawn("observer", func() { getOut() })
		}
		if !(c.Mode == "prefill" && capIn >= total) {
			vrt.Spawn("producer", func() {
				for i := 0; i < total; i++ {
					vrt.Mark(uint64(i))
					if p := pauses[vrt.Choose(len(pauses))]; p > 0 {
						vtime.Sleep(time.Duration(p))
					}
					m.written = i + 1
					m.offerAt = append(m.offerAt, w.Clock)
					vrt.Send(in, i)
				}
				vrt.Mark(uint64(total) + 7000)
				vrt.Close(in)
			})
		}
		if c.Mode == "thief" {
			// ordinary fan-out: a second goroutine receives from the same input channel
			// (at most R elements, at any time)
			vrt.Spawn("thief", func() {
				k := c.R
				if k == 0 {
					k = 1
				}
				for i := 0; i < k; i++ {
					vrt.Mark(uint64(i) + 0x7e1f)
					v, ok := vrt.Recv2(in)
					if !ok {
						return
					}
					m.stolen[v] = true
				}
				vrt.Mark(0x7e1e)
			})
		}
		vrt.Spawn("consumer", func() {
			n := 0
			if c.Mode == "outputs" {
				getOut()
			}
			for {
				vrt.Mark(uint64(n) + 100)
				if p := delays[vrt.Choose(len(delays))]; p > 0 {
					vtime.Sleep(time.Duration(p))
				}
				_, ok := vrt.Recv2(out)
				if !ok {
					return
				}
				n++
			}
		})
	}
	inst := &explore.Instance{Body: body}
	inst.Terminal = func(w *vrt.World, out vrt.Outcome) string {
		if newErr != nil {
			return "harness: constructor failed: " + newErr.Error()
		}
		if out == vrt.Spin {
			return c.Prop + ": livelock: " + w.SpinInfo
		}
		if out != vrt.Done {
			return fmt.Sprintf("%s: the system does not terminate: %s", c.Prop, w.Describe())
		}
		if want(c, "C12") {
			if m.nrecv+len(m.stolen) != total || m.next+len(m.stolen) != total {
				return fmt.Sprintf("C12: input closed and output drained, but %d of %d elements were forwarded and %d received (%d taken by another reader)", m.next, total, m.nrecv, len(m.stolen))
			}
			if !m.outClosed {
				return "C12: the output was not closed"
			}
			if c.Mode == "prefill" {
				q := m.Q
				n := int64(total)
				limit := ((n + q - 1) / q) * c.I
				if m.closedAt > limit {
					return fmt.Sprintf("C12: %d elements available up-front, prompt consumer: output closed at %d, later than ceil(N/Quantity)*Interval = %d", total, m.closedAt, limit)
				}
				if n < q && m.closedAt != 0 {
					return fmt.Sprintf("C12: fewer than Quantity elements (%d < %d) must pass with no pause at all, but the output closed at %d", n, q, m.closedAt)
				}
			}
		}
		for _, t := range w.Threads {
			if t.Lib && !t.Done() {
				return fmt.Sprintf("C19: library goroutine %s still alive after termination", t.Name)
			}
		}
		return ""
	}
	inst.Observe = func(w *vrt.World) string { return fmt.Sprintf("sent_at=%v closed_at=%d", m.sentAt, m.closedAt) }
	inst.Counters = func() map[string]int {
		return map[string]int{"emissions": len(m.sentAt), "windows_with_more_than_Q": m.bursts}
	}
	return inst
}
