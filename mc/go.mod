module cqosverif

go 1.23

require (
	github.com/akramarenkov/cqos v0.0.0
	github.com/akramarenkov/cqos/v2 v2.0.0
)

require (
	github.com/akramarenkov/breaker v0.1.0 // indirect
	github.com/akramarenkov/safe v0.2.3 // indirect
	golang.org/x/exp v0.0.0-20240613232115-7f521ea00fb8 // indirect
)

replace github.com/akramarenkov/cqos => /repo

replace github.com/akramarenkov/cqos/v2 => /repo/v2

replace github.com/akramarenkov/breaker => /verif/.build/breaker
