// Package vatomic replaces sync/atomic in the rewritten library code: every
// atomic operation is a scheduling point of the virtual runtime (a check-then-act
// made of two atomic operations can be interleaved), the values are plain fields
// (one thread runs at a time) and therefore part of the reflective object hash,
// and in the race build every operation is an acquire and a release on the
// variable (atomics are sequentially consistent synchronisation in Go's memory
// model).
package vatomic

import (
	"unsafe"

	"cqosverif/vrt"
)

type word interface {
	~int32 | ~int64 | ~uint32 | ~uint64 | ~uintptr
}

//go:norace
func enter(hb *byte) {
	vrt.Yield()
	vrt.RaceAcq(hb)
}

//go:norace
func leave(hb *byte) { vrt.RaceRel(hb) }

type num[T word] struct {
	v  T
	hb byte
}

//go:norace
func (x *num[T]) Load() T { enter(&x.hb); v := x.v; leave(&x.hb); return v }

//go:norace
func (x *num[T]) Store(v T) { enter(&x.hb); x.v = v; leave(&x.hb) }

//go:norace
func (x *num[T]) Swap(v T) T { enter(&x.hb); o := x.v; x.v = v; leave(&x.hb); return o }

//go:norace
func (x *num[T]) Add(d T) T { enter(&x.hb); x.v += d; v := x.v; leave(&x.hb); return v }

//go:norace
func (x *num[T]) And(m T) T { enter(&x.hb); o := x.v; x.v &= m; leave(&x.hb); return o }

//go:norace
func (x *num[T]) Or(m T) T { enter(&x.hb); o := x.v; x.v |= m; leave(&x.hb); return o }

//go:norace
func (x *num[T]) CompareAndSwap(o, n T) bool {
	enter(&x.hb)
	ok := x.v == o
	if ok {
		x.v = n
	}
	leave(&x.hb)
	return ok
}

type (
	Int32   struct{ num[int32] }
	Int64   struct{ num[int64] }
	Uint32  struct{ num[uint32] }
	Uint64  struct{ num[uint64] }
	Uintptr struct{ num[uintptr] }
)

type Bool struct {
	v  bool
	hb byte
}

//go:norace
func (x *Bool) Load() bool { enter(&x.hb); v := x.v; leave(&x.hb); return v }

//go:norace
func (x *Bool) Store(v bool) { enter(&x.hb); x.v = v; leave(&x.hb) }

//go:norace
func (x *Bool) Swap(v bool) bool { enter(&x.hb); o := x.v; x.v = v; leave(&x.hb); return o }

//go:norace
func (x *Bool) CompareAndSwap(o, n bool) bool {
	enter(&x.hb)
	ok := x.v == o
	if ok {
		x.v = n
	}
	leave(&x.hb)
	return ok
}

type Pointer[T any] struct {
	v  *T
	hb byte
}

//go:norace
func (x *Pointer[T]) Load() *T { enter(&x.hb); v := x.v; leave(&x.hb); return v }

//go:norace
func (x *Pointer[T]) Store(v *T) { enter(&x.hb); x.v = v; leave(&x.hb) }

//go:norace
func (x *Pointer[T]) Swap(v *T) *T { enter(&x.hb); o := x.v; x.v = v; leave(&x.hb); return o }

//go:norace
func (x *Pointer[T]) CompareAndSwap(o, n *T) bool {
	enter(&x.hb)
	ok := x.v == o
	if ok {
		x.v = n
	}
	leave(&x.hb)
	return ok
}

type Value struct {
	v  any
	hb byte
}

//go:norace
func (x *Value) Load() any { enter(&x.hb); v := x.v; leave(&x.hb); return v }

//go:norace
func (x *Value) Store(v any) {
	if v == nil {
		panic("sync/atomic: store of nil value into Value")
	}
	enter(&x.hb)
	x.v = v
	leave(&x.hb)
}

//go:norace
func (x *Value) Swap(v any) any { enter(&x.hb); o := x.v; x.v = v; leave(&x.hb); return o }

//go:norace
func (x *Value) CompareAndSwap(o, n any) bool {
	enter(&x.hb)
	ok := x.v == o
	if ok {
		x.v = n
	}
	leave(&x.hb)
	return ok
}

// ---- function forms: the variable itself carries no happens-before byte, the
// race build uses the address of the variable ----

//go:norace
func fenter[T any](p *T) { vrt.Yield(); vrt.RaceAcq((*byte)(unsafe.Pointer(p))) }

//go:norace
func fleave[T any](p *T) { vrt.RaceRel((*byte)(unsafe.Pointer(p))) }

//go:norace
func load[T any](p *T) T { fenter(p); v := *p; fleave(p); return v }

//go:norace
func store[T any](p *T, v T) { fenter(p); *p = v; fleave(p) }

//go:norace
func swap[T any](p *T, v T) T { fenter(p); o := *p; *p = v; fleave(p); return o }

//go:norace
func cas[T comparable](p *T, o, n T) bool {
	fenter(p)
	ok := *p == o
	if ok {
		*p = n
	}
	fleave(p)
	return ok
}

//go:norace
func add[T word](p *T, d T) T { fenter(p); *p += d; v := *p; fleave(p); return v }

func LoadInt32(p *int32) int32                                          { return load(p) }
func LoadInt64(p *int64) int64                                          { return load(p) }
func LoadUint32(p *uint32) uint32                                       { return load(p) }
func LoadUint64(p *uint64) uint64                                       { return load(p) }
func LoadUintptr(p *uintptr) uintptr                                    { return load(p) }
func LoadPointer(p *unsafe.Pointer) unsafe.Pointer                      { return load(p) }
func StoreInt32(p *int32, v int32)                                      { store(p, v) }
func StoreInt64(p *int64, v int64)                                      { store(p, v) }
func StoreUint32(p *uint32, v uint32)                                   { store(p, v) }
func StoreUint64(p *uint64, v uint64)                                   { store(p, v) }
func StoreUintptr(p *uintptr, v uintptr)                                { store(p, v) }
func StorePointer(p *unsafe.Pointer, v unsafe.Pointer)                  { store(p, v) }
func SwapInt32(p *int32, v int32) int32                                 { return swap(p, v) }
func SwapInt64(p *int64, v int64) int64                                 { return swap(p, v) }
func SwapUint32(p *uint32, v uint32) uint32                             { return swap(p, v) }
func SwapUint64(p *uint64, v uint64) uint64                             { return swap(p, v) }
func SwapUintptr(p *uintptr, v uintptr) uintptr                         { return swap(p, v) }
func SwapPointer(p *unsafe.Pointer, v unsafe.Pointer) unsafe.Pointer    { return swap(p, v) }
func AddInt32(p *int32, d int32) int32                                  { return add(p, d) }
func AddInt64(p *int64, d int64) int64                                  { return add(p, d) }
func AddUint32(p *uint32, d uint32) uint32                              { return add(p, d) }
func AddUint64(p *uint64, d uint64) uint64                              { return add(p, d) }
func AddUintptr(p *uintptr, d uintptr) uintptr                          { return add(p, d) }
func CompareAndSwapInt32(p *int32, o, n int32) bool                     { return cas(p, o, n) }
func CompareAndSwapInt64(p *int64, o, n int64) bool                     { return cas(p, o, n) }
func CompareAndSwapUint32(p *uint32, o, n uint32) bool                  { return cas(p, o, n) }
func CompareAndSwapUint64(p *uint64, o, n uint64) bool                  { return cas(p, o, n) }
func CompareAndSwapUintptr(p *uintptr, o, n uintptr) bool               { return cas(p, o, n) }
func CompareAndSwapPointer(p *unsafe.Pointer, o, n unsafe.Pointer) bool { return cas(p, o, n) }
