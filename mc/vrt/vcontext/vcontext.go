// Package vcontext replaces package context in the rewritten sources: cancel
// contexts whose Done channel is a virtual channel and whose deadlines run on
// the virtual clock.
package vcontext

import (
	"context"
	"time"

	"cqosverif/vrt"
	"cqosverif/vrt/vtime"
)

type (
	Context         = context.Context
	CancelFunc      = context.CancelFunc
	CancelCauseFunc = context.CancelCauseFunc
)

var (
	Canceled         = context.Canceled
	DeadlineExceeded = context.DeadlineExceeded
)

//go:norace
func Background() Context { return context.Background() }

//go:norace
func TODO() Context { return context.TODO() }

//go:norace
func WithValue(parent Context, key, val any) Context { return context.WithValue(parent, key, val) }

//go:norace
func Cause(c Context) error { return context.Cause(c) }

type cancelCtx struct {
	parent   Context
	done     chan struct{}
	err      error
	children []*cancelCtx
	deadline time.Time
	hasDL    bool
	timer    *vtime.Timer
	hb       byte
}

type ctxKey struct{}

var selfKey ctxKey

//go:norace
func (c *cancelCtx) Deadline() (time.Time, bool) {
	if c.hasDL {
		return c.deadline, true
	}
	return c.parent.Deadline()
}

//go:norace
func (c *cancelCtx) Done() <-chan struct{} { return c.done }

//go:norace
func (c *cancelCtx) Err() error {
	if c.err != nil {
		vrt.RaceAcq(&c.hb)
	}
	return c.err
}

//go:norace
func (c *cancelCtx) Value(key any) any {
	if key == &selfKey {
		return c
	}
	return c.parent.Value(key)
}

// VrtKey: the state of a context is its done channel (world key).
//
//go:norace
func (c *cancelCtx) VrtKey() uint64 { return vrt.Mix(0xc7c7, vrt.StateOf[struct{}](c.done).ID) }

//go:norace
func (c *cancelCtx) cancel(err error) {
	if c.err != nil {
		return
	}
	c.err = err
	vrt.RaceRel(&c.hb)
	if c.timer != nil {
		c.timer.Stop()
	}
	kids := c.children
	c.children = nil
	vrt.Close(c.done)
	for _, k := range kids {
		k.cancel(err)
	}
}

//go:norace
func newCancel(parent Context) *cancelCtx {
	if parent == nil {
		panic("cannot create context from nil parent")
	}
	c := &cancelCtx{parent: parent, done: vrt.MakeChan[struct{}](0)}
	if p, ok := parent.Value(&selfKey).(*cancelCtx); ok {
		if p.err != nil {
			c.err = p.err
			vrt.CloseNow(c.done)
		} else {
			p.children = append(p.children, c)
		}
	} else if d := parent.Done(); d != nil {
		// foreign parent: watcher thread
		vrt.Go("context.watch", nil, func() { watch(parent, c) })
	}
	return c
}

//go:norace
func watch(parent Context, c *cancelCtx) {
	switch vrt.Select(false, vrt.CaseRecv(parent.Done()), vrt.CaseRecv[struct{}](c.done)) {
	case 0:
		c.cancel(parent.Err())
	}
}

type canceler struct{ c *cancelCtx }

//go:norace
func (k canceler) cancel() { k.c.cancel(Canceled) }

//go:norace
func WithCancel(parent Context) (Context, CancelFunc) {
	c := newCancel(parent)
	return c, canceler{c}.cancel
}

type causeCanceler struct{ c *cancelCtx }

//go:norace
func (k causeCanceler) cancel(cause error) { k.c.cancel(Canceled) }

//go:norace
func WithCancelCause(parent Context) (Context, CancelCauseFunc) {
	c := newCancel(parent)
	return c, causeCanceler{c}.cancel
}

//go:norace
func WithDeadline(parent Context, d time.Time) (Context, CancelFunc) {
	c := newCancel(parent)
	if cur, ok := parent.Deadline(); ok && cur.Before(d) {
		return c, canceler{c}.cancel
	}
	c.deadline, c.hasDL = d, true
	dur := vtime.Until(d)
	if dur <= 0 {
		c.cancel(DeadlineExceeded)
		return c, canceler{c}.cancel
	}
	if c.err == nil {
		c.timer = vtime.NewTimer(dur)
		tc := c.timer.C
		vrt.Go("context.deadline", nil, func() { deadline(tc, c) })
	}
	return c, canceler{c}.cancel
}

//go:norace
func deadline(tc <-chan time.Time, c *cancelCtx) {
	switch vrt.Select(false, vrt.CaseRecv(tc), vrt.CaseRecv[struct{}](c.done)) {
	case 0:
		c.cancel(DeadlineExceeded)
	}
}

//go:norace
func WithTimeout(parent Context, timeout time.Duration) (Context, CancelFunc) {
	return WithDeadline(parent, vtime.Now().Add(timeout))
}

//go:norace
func WithoutCancel(parent Context) Context { return context.WithoutCancel(parent) }

//go:norace
func AfterFunc(ctx Context, f func()) (stop func() bool) {
	stopCh := vrt.MakeChan[struct{}](0)
	stopped := false
	vrt.Go("context.AfterFunc", nil, func() {
		switch vrt.Select(false, vrt.CaseRecv(ctx.Done()), vrt.CaseRecv[struct{}](stopCh)) {
		case 0:
			if !stopped {
				f()
			}
		}
	})
	return func() bool {
		if stopped {
			return false
		}
		stopped = true
		vrt.Close(stopCh)
		return true
	}
}
