// Package vrt is the virtual runtime the rewritten cqos sources run on: a
// deterministic cooperative scheduler with virtual channels, select, clock and
// threads. Exactly one virtual thread runs at any moment; every channel
// operation, select, close, sleep, clock read (when late ticks are enabled),
// Choose and Yield is a scheduling point at which the thread publishes its pending
// operation and parks. The driver (the goroutine that called World.Run) computes
// the enabled transitions, asks the explorer for one and applies it.
//
// All functions of this package are //go:norace and contain no function
// literals: in the race build the baton hand-off is hidden from the detector and
// the happens-before edges of the virtual operations are supplied explicitly
// (see race_on.go).
package vrt

import (
	"fmt"
	"os"
	"reflect"
	"runtime"
	"strings"
	"unsafe"
)

type OpKind uint8

const (
	OpSelect OpKind = iota + 1 // send, receive and select
	OpClose
	OpChoose
	OpYield
	OpNow
	OpSleep
	OpBlock
)

type ClockPolicy uint8

const (
	// ClockNone: no time passes. Sleeps shorter than EagerBelow are yields, tickers
	// with a period shorter than EagerBelow are always ready.
	ClockNone ClockPolicy = iota
	// ClockLapse: time advances to the next timer event only when no thread has an
	// enabled untimed transition; with LateBudget > 0 it may additionally advance by
	// Unit although threads are enabled, at most LateBudget times.
	ClockLapse
)

// Options of one execution.
type Options struct {
	Clock      ClockPolicy
	EagerBelow int64 // durations below this are "no time" (yield / eager ticker)
	LateBudget int
	Unit       int64 // step of a late tick
	Horizon    int64 // late ticks are not taken beyond this clock value
	KeyHistory bool  // never reset digests, do not hash root objects
	EagerStart bool  // a new thread runs up to its first operation at once (no start point)
	Trace      bool
	MaxSteps   int
	// ResetDepth returns, for a library thread started as `go name(...)`, the
	// stack depth (frames outside vrt, counted from the thread root) at or below
	// which an operation is a reset point of the round digest; 0 = never.
	ResetDepth func(name string) int
}

type slot struct {
	v any
	h uint64
}

// ChanState is the virtual state of one channel.
type ChanState struct {
	ID      uint64 // schedule independent identity
	Seq     int
	Name    string
	Cap     int
	buf     []slot
	Closed  bool
	Eager   bool // always ready to receive (sub-unit ticker)
	IsTick  bool
	endless *slot  // every receive yields this value, the channel never runs empty
	sync    []byte // race build: addresses standing for buffer slots / close
	sendx   int
	recvx   int
}

//go:norace
func (c *ChanState) Len() int {
	if c.endless != nil {
		return c.Cap
	}
	return len(c.buf)
}

//go:norace
func (c *ChanState) String() string {
	if c == nil {
		return "nil"
	}
	if c.Name != "" {
		return c.Name
	}
	return fmt.Sprintf("ch%d", c.Seq)
}

type selCase struct {
	ch   *ChanState
	send bool
	val  any
	vh   uint64
}

type pending struct {
	kind       OpKind
	cases      []selCase
	hasDefault bool
	n          int
	ch         *ChanState
	until      int64
	blk        Blocker
	h          uint64
}

// Blocker is implemented by vsync objects: an OpBlock is enabled iff Ready().
type Blocker interface {
	Ready(t *Thread) bool
	Acquire(t *Thread)
	KeyID() uint64
}

type result struct {
	idx int
	val any
	ok  bool
}

type hbAct struct {
	addr unsafe.Pointer
	kind uint8 // 1 acquire, 2 release, 3 both
}

// Thread is one virtual thread.
type Thread struct {
	ID      int
	Path    string
	KeyName uint64
	Name    string
	Lib     bool
	Root    any
	w       *World
	wake    chan struct{}
	pend    *pending
	res     result
	done    bool
	needRun bool
	started bool

	panicked  any
	panicNext string
	steps     int

	digest     uint64
	lastStack  uint64
	stack      uint64
	rep        uint64
	rootHash   uint64
	resetDepth int
	timeless   bool
	nchan      int
	nspawn     int
	nobj       int

	hb      [6]hbAct
	nhb     int
	out     byte // race build: the thread's clock at its last park
	pcs     map[uint64]stackInfo
	rootPtr unsafe.Pointer

	notes []localNote // values of scalar locals noted at loop heads (NoteLocals)

	// run-length cap on identical consecutive observations (see note)
	digestBefore uint64
	lastObs      uint64
	obsRep       int
	ticked       bool

	User any // harness data
}

//go:norace
func (t *Thread) Done() bool { return t.done }

// PendingKind returns the kind of the operation the thread is parked on (0 if none).
//
//go:norace
func (t *Thread) PendingKind() OpKind {
	if t.pend == nil {
		return 0
	}
	return t.pend.kind
}

// PendingOn reports whether the thread is parked on a plain (single case, no
// default) receive (send=false) or send (send=true) on ch.
//
//go:norace
func (t *Thread) PendingOn(ch *ChanState, send bool) bool {
	p := t.pend
	if p == nil || p.kind != OpSelect || p.hasDefault || len(p.cases) != 1 {
		return false
	}
	return p.cases[0].ch == ch && p.cases[0].send == send
}

// PendingPlainRecvEmpty reports whether the thread is parked on a plain receive
// from an open, empty channel and returns that channel.
//
//go:norace
func (t *Thread) PendingPlainRecvEmpty() (*ChanState, bool) {
	p := t.pend
	if p == nil || p.kind != OpSelect || p.hasDefault || len(p.cases) != 1 || p.cases[0].send || p.cases[0].ch == nil {
		return nil, false
	}
	c := p.cases[0].ch
	return c, len(c.buf) == 0 && !c.Closed && !c.Eager
}

// AnyPendingSend reports whether some thread is parked on a send (plain or in a select).
//
//go:norace
func (w *World) AnyPendingSend() bool {
	for _, t := range w.Threads {
		if t.done || t.pend == nil || t.pend.kind != OpSelect {
			continue
		}
		for _, c := range t.pend.cases {
			if c.send {
				return true
			}
		}
	}
	return false
}

// PendingHas reports whether the pending select of the thread has a case on ch.
//
//go:norace
func (t *Thread) PendingHas(ch *ChanState, send bool) bool {
	p := t.pend
	if p == nil || p.kind != OpSelect {
		return false
	}
	for _, c := range p.cases {
		if c.ch == ch && c.send == send {
			return true
		}
	}
	return false
}

//go:norace
func (t *Thread) addHB(addr *byte, kind uint8) {
	if !raceEnabled {
		return
	}
	if t.nhb < len(t.hb) {
		t.hb[t.nhb] = hbAct{unsafe.Pointer(addr), kind}
		t.nhb++
	}
}

type EventKind uint8

const (
	EvSend EventKind = iota + 1
	EvRecv
	EvClose
	EvClock
	EvChoose
	EvDone
	EvDefault
	EvOther
)

// Event is what monitors see; it is delivered inside the scheduler step, i.e. in
// the exact global order of the transitions.
type Event struct {
	Kind  EventKind
	T     *Thread
	Ch    *ChanState
	Val   any
	OK    bool
	Idx   int
	Clock int64
}

// Monitor is an automaton over events whose state is part of the state key.
type Monitor interface {
	OnEvent(w *World, ev *Event)
	Hash() uint64
}

type ticker struct {
	period  int64
	next    int64
	ch      *ChanState
	stopped bool
	oneShot bool
	val     func(int64) any
}

type Outcome uint8

const (
	Running Outcome = iota
	Done
	Deadlock
	Pruned
	Panicked
	Failed
	Depth
	Spin
)

//go:norace
func (o Outcome) String() string {
	return [...]string{"RUNNING", "DONE", "DEADLOCK", "PRUNED", "PANIC", "VIOLATION", "DEPTH", "SPIN"}[o]
}

// Trans is one enabled transition.
type Trans struct {
	Clock   bool
	Late    bool
	T       *Thread
	Case    int
	Partner *Thread
	PCase   int
}

// World is one execution.
type World struct {
	Opt      Options
	Threads  []*Thread
	chanPtrs []unsafe.Pointer
	ChanList []*ChanState
	objs     []KeyedObj
	tickers  []*ticker
	cur      *Thread
	toDriver chan struct{}
	dead     bool
	Clock    int64
	LateUsed int
	Steps    int
	Monitors []Monitor
	TraceLog []string
	Failure  string
	Last     *Thread // thread that made the last transition
	enabled  []Trans
	SpinInfo string
	spin     []spinRec
	// stack cache
	pcCache map[uint64]stackInfo
}

type stackInfo struct {
	depth int
	hash  uint64
}

// KeyedObj is a piece of shared virtual state (vsync objects) included in the key.
type KeyedObj interface {
	KeyHash() uint64
}

// chanByPtr finds a registered channel.
//
//go:norace
func (w *World) chanByPtr(p unsafe.Pointer) (*ChanState, bool) {
	for i, q := range w.chanPtrs {
		if q == p {
			return w.ChanList[i], true
		}
	}
	return nil, false
}

// W is the world of the execution in progress (one per process at a time).
var W *World

type poison struct{}

// global, survives executions: PC vector -> (depth, hash)
var pcCache = map[uint64]stackInfo{}

//go:norace
func NewWorld(opt Options) *World {
	if opt.MaxSteps == 0 {
		opt.MaxSteps = 20000
	}
	if opt.Unit == 0 {
		opt.Unit = 1
	}
	w := &World{Opt: opt, toDriver: make(chan struct{}), pcCache: pcCache}
	// preallocated: appends by virtual threads must never grow these slices in the
	// race build (growslice is instrumented inside the runtime)
	w.chanPtrs = make([]unsafe.Pointer, 0, 512)
	w.ChanList = make([]*ChanState, 0, 512)
	w.Threads = make([]*Thread, 0, 128)
	w.objs = make([]KeyedObj, 0, 256)
	w.tickers = make([]*ticker, 0, 64)
	if opt.Trace {
		w.TraceLog = make([]string, 0, opt.MaxSteps+4096)
	}
	W = w
	return w
}

//go:norace
func chanPtr[T any](ch <-chan T) unsafe.Pointer { return *(*unsafe.Pointer)(unsafe.Pointer(&ch)) }

//go:norace
func chanPtrS[T any](ch chan<- T) unsafe.Pointer { return *(*unsafe.Pointer)(unsafe.Pointer(&ch)) }

//go:norace
func (w *World) stateOf(p unsafe.Pointer, c int) *ChanState {
	if p == nil {
		return nil
	}
	for i, q := range w.chanPtrs {
		if q == p {
			return w.ChanList[i]
		}
	}
	if len(w.ChanList) == cap(w.ChanList) {
		panic("vrt: too many channels")
	}
	s := &ChanState{Seq: len(w.ChanList), Cap: c}
	if raceEnabled {
		s.sync = make([]byte, c+2)
	}
	if t := w.cur; t != nil {
		s.ID = Mix(t.KeyName, 0xc4a7, uint64(t.nchan))
		t.nchan++
	} else {
		s.ID = Mix(0x5eed, uint64(len(w.ChanList)))
	}
	w.chanPtrs = append(w.chanPtrs, p)
	w.ChanList = append(w.ChanList, s)
	return s
}

// MakeChan replaces make(chan T, n).
//
//go:norace
func MakeChan[T any](n int) chan T {
	ch := make(chan T, n)
	W.stateOf(chanPtr[T](ch), n)
	return ch
}

// NameChan gives a channel a name for traces.
//
//go:norace
func NameChan[T any](ch <-chan T, name string) *ChanState {
	s := W.stateOf(chanPtr(ch), cap(ch))
	s.Name = name
	return s
}

// PeekChan finds the channel kept in the (unexported) field of the struct obj
// points to and names it, without calling any method of obj; nil if there is no
// such field. Harnesses use it to let their monitors know a discipline's
// channels before any accessor has been called.
//
//go:norace
func PeekChan(obj any, field, name string) *ChanState {
	v := reflect.ValueOf(obj)
	for v.Kind() == reflect.Pointer || v.Kind() == reflect.Interface {
		if v.IsNil() {
			return nil
		}
		v = v.Elem()
	}
	if v.Kind() != reflect.Struct {
		return nil
	}
	f := v.FieldByName(field)
	if !f.IsValid() || f.Kind() != reflect.Chan || f.IsNil() {
		return nil
	}
	s := W.stateOf(f.UnsafePointer(), f.Cap())
	s.Name = name
	return s
}

//go:norace
func StateOf[T any](ch <-chan T) *ChanState { return W.stateOf(chanPtr(ch), cap(ch)) }

//go:norace
func StateOfS[T any](ch chan<- T) *ChanState { return W.stateOf(chanPtrS(ch), cap(ch)) }

// RaceBuild reports whether this is the race build (value-reading monitors off).
const RaceBuild = raceEnabled

//go:norace
func ChanClosed[T any](ch <-chan T) bool { return W.stateOf(chanPtr(ch), cap(ch)).Closed }

// Prefill appends values to the virtual buffer without a scheduling point (setup).
//
//go:norace
func Prefill[T any](ch chan T, vals ...T) {
	s := W.stateOf(chanPtr[T](ch), cap(ch))
	for _, v := range vals {
		s.buf = append(s.buf, slot{v, HashAny(v)})
	}
}

// Endless makes a channel an inexhaustible source of val (setup): every receive
// yields val and the channel never runs empty - "data waiting continuously".
//
//go:norace
func Endless[T any](ch chan T, val T) {
	s := W.stateOf(chanPtr[T](ch), cap(ch))
	s.endless = &slot{val, HashAny(val)}
}

// CloseNow closes without a scheduling point (setup).
//
//go:norace
func CloseNow[T any](ch chan T) {
	W.stateOf(chanPtr[T](ch), cap(ch)).Closed = true
}

//go:norace
func (w *World) op(p *pending) *result {
	if w.dead {
		panic(poison{})
	}
	t := w.cur
	t.pend = p
	t.prepark()
	if raceEnabled {
		raceRelease(unsafe.Pointer(&t.out))
	}
	raceDisable()
	w.toDriver <- struct{}{}
	<-t.wake
	raceEnable()
	if w.dead {
		panic(poison{})
	}
	for i := 0; i < t.nhb; i++ {
		a := t.hb[i]
		if a.kind&1 != 0 {
			raceAcquire(a.addr)
		}
		if a.kind&2 != 0 {
			raceRelease(a.addr)
		}
	}
	t.nhb = 0
	if t.panicNext != "" {
		m := t.panicNext
		t.panicNext = ""
		panic(m)
	}
	return &t.res
}

// prepark runs in the parking thread: hash of the pending operation, stack
// hash, round digest, root object hash.
//
//go:norace
func (t *Thread) prepark() {
	p := t.pend
	h := Mix(uint64(p.kind), uint64(p.n))
	if p.hasDefault {
		h = Mix(h, 5)
	}
	if p.ch != nil {
		h = Mix(h, p.ch.ID)
	}
	for i := range p.cases {
		c := &p.cases[i]
		if c.ch == nil {
			h = Mix(h, 1234)
			continue
		}
		s := uint64(0)
		if c.send {
			s = 1
		}
		h = Mix(h, c.ch.ID, s, c.vh)
	}
	if p.blk != nil {
		h = Mix(h, p.blk.KeyID())
	}
	p.h = h
	w := t.w
	if !t.Lib {
		return
	}
	// library thread: stack
	var pcs [48]uintptr
	n := runtime.Callers(3, pcs[:])
	ph := uint64(1469598103934665603)
	for _, pc := range pcs[:n] {
		ph = Mix(ph, uint64(pc))
	}
	// race build: a per-thread cache (a shared map would be reported by the
	// instrumented runtime map code and must not be synchronised either)
	cache := w.pcCache
	if raceEnabled {
		if t.pcs == nil {
			t.pcs = map[uint64]stackInfo{}
		}
		cache = t.pcs
	}
	si, ok := cache[ph]
	if !ok {
		si = symbolize(pcs[:n])
		cache[ph] = si
	}
	if raceEnabled && t.Root != nil && !w.Opt.KeyHistory {
		// the owning thread hashes its own object (the driver must not read it)
		t.rootHash = HashRoot(t.Root)
	}
	t.stack = si.hash
	for len(t.notes) > 0 && t.notes[len(t.notes)-1].depth > si.depth {
		t.notes = t.notes[:len(t.notes)-1] // the frame of that loop has returned
	}
	t.digestBefore = t.digest
	t.ticked = false
	if !w.Opt.KeyHistory {
		if t.resetDepth > 0 && si.depth <= t.resetDepth {
			if si.hash == t.lastStack {
				t.rep++
			} else {
				t.rep = 0
			}
			t.digest = Mix(12345, si.hash, t.rep)
		} else {
			t.digest = Mix(t.digest, si.hash)
		}
		t.lastStack = si.hash
	} else {
		t.digest = Mix(t.digest, si.hash)
	}
}

// localNote: see NoteLocals.
type localNote struct {
	site  uint64
	depth int
	hash  uint64
}

var noteParent = map[uint64]uint64{} // loop site -> enclosing loop site of the same function (static program structure)

// NoteLocals is called at the head of every loop body of the rewritten library
// code (inserted by vxform) with the scalar locals of the enclosing function
// that the loop reads or writes. The values are part of the thread's key while
// the frame of the loop is live, so that state carried from one iteration to
// the next in a local variable - which neither the object hash nor a digest
// that is reset every round can see - keeps states apart. Finer keys only:
// nothing is ever merged because of a note.
//
//go:norace
func NoteLocals(site, parent uint64, vals ...any) {
	w := W
	if w == nil || w.Opt.KeyHistory {
		return
	}
	t := w.cur
	if t == nil || !t.Lib {
		return
	}
	h := uint64(0x10ca15)
	for _, v := range vals {
		h = Mix(h, HashAny(v))
	}
	var pcs [48]uintptr
	n := runtime.Callers(2, pcs[:])
	ph := uint64(1469598103934665603)
	for _, pc := range pcs[:n] {
		ph = Mix(ph, uint64(pc))
	}
	cache := w.pcCache
	if raceEnabled {
		if t.pcs == nil {
			t.pcs = map[uint64]stackInfo{}
		}
		cache = t.pcs
	}
	si, ok := cache[ph]
	if !ok {
		si = symbolize(pcs[:n])
		cache[ph] = si
	}
	d := si.depth
	if !raceEnabled {
		if _, ok := noteParent[site]; !ok {
			noteParent[site] = parent
		}
	}
	// drop the notes of frames that have returned, and of loops of this frame
	// that do not enclose this one (they have ended)
	keep := t.notes[:0]
	for _, nt := range t.notes {
		switch {
		case nt.depth < d:
			keep = append(keep, nt)
		case nt.depth == d && nt.site != site && encloses(nt.site, site, parent):
			keep = append(keep, nt)
		}
	}
	t.notes = append(keep, localNote{site, d, h})
}

//go:norace
func encloses(outer, inner, innerParent uint64) bool {
	p := innerParent
	for i := 0; p != 0 && i < 16; i++ {
		if p == outer {
			return true
		}
		if raceEnabled {
			return false // the shared table is not kept in race builds: one level only
		}
		p = noteParent[p]
	}
	return false
}

//go:norace
func symbolize(pcs []uintptr) stackInfo {
	fr := runtime.CallersFrames(pcs)
	depth := 0
	h := uint64(77)
	for {
		f, more := fr.Next()
		fn := f.Function
		if fn != "" && !strings.HasPrefix(fn, "cqosverif/vrt.") && !strings.HasPrefix(fn, "cqosverif/vrt/") && !strings.HasPrefix(fn, "runtime.") {
			depth++
			h = Mix(h, HashString(fn), uint64(f.Line))
		}
		if !more {
			break
		}
	}
	if debugStacks {
		fr := runtime.CallersFrames(pcs)
		line := fmt.Sprintf("STACK depth=%d:", depth)
		for {
			f, more := fr.Next()
			line += " " + f.Function
			if !more {
				break
			}
		}
		println(line)
	}
	return stackInfo{depth, h}
}

var debugStacks = os.Getenv("VRT_DEBUG_STACKS") != ""

// Send replaces ch <- v.
//
//go:norace
func Send[T any](ch chan<- T, v T) {
	W.op(&pending{kind: OpSelect, cases: []selCase{{ch: W.stateOf(chanPtrS(ch), cap(ch)), send: true, val: v, vh: HashAny(v)}}})
}

// Sender carries the element type of a channel so that the value of a send is
// converted by ordinary assignability (ch <- v allows v of any type assignable
// to the element type).
type Sender[T any] struct{ ch chan<- T }

//go:norace
func To[T any](ch chan<- T) Sender[T] { return Sender[T]{ch} }

// Send replaces ch <- v.
//
//go:norace
func (s Sender[T]) Send(v T) { Send(s.ch, v) }

// Case replaces `case ch <- v:`.
//
//go:norace
func (s Sender[T]) Case(v T) *SCase[T] { return CaseSend(s.ch, v) }

// Recv2 replaces v, ok := <-ch.
//
//go:norace
func Recv2[T any](ch <-chan T) (T, bool) {
	r := W.op(&pending{kind: OpSelect, cases: []selCase{{ch: W.stateOf(chanPtr(ch), cap(ch))}}})
	var zero T
	if r.val == nil {
		return zero, r.ok
	}
	return r.val.(T), r.ok
}

// Recv replaces <-ch.
//
//go:norace
func Recv[T any](ch <-chan T) T { v, _ := Recv2(ch); return v }

// Close replaces close(ch).
//
//go:norace
func Close[T any](ch chan<- T) {
	if ch == nil {
		panic("close of nil channel")
	}
	W.op(&pending{kind: OpClose, ch: W.stateOf(chanPtrS(ch), cap(ch))})
}

// Len replaces len(ch) for channels.
//
//go:norace
func Len[T any](ch <-chan T) int {
	if ch == nil {
		return 0
	}
	return len(W.stateOf(chanPtr(ch), cap(ch)).buf)
}

//go:norace
func LenS[T any](ch chan<- T) int {
	if ch == nil {
		return 0
	}
	return len(W.stateOf(chanPtrS(ch), cap(ch)).buf)
}

// Case is one case of a rewritten select.
type Case interface {
	sel() selCase
	set(v any, ok bool)
}

type RCase[T any] struct {
	c  selCase
	V  T
	OK bool
}

type SCase[T any] struct {
	c selCase
}

//go:norace
func (c *RCase[T]) sel() selCase { return c.c }

//go:norace
func (c *RCase[T]) set(v any, ok bool) {
	c.OK = ok
	if v != nil {
		c.V = v.(T)
	}
}

//go:norace
func (c *SCase[T]) sel() selCase { return c.c }

//go:norace
func (c *SCase[T]) set(v any, ok bool) {}

//go:norace
func CaseRecv[T any](ch <-chan T) *RCase[T] {
	return &RCase[T]{c: selCase{ch: W.stateOf(chanPtr(ch), cap(ch))}}
}

//go:norace
func CaseSend[T any](ch chan<- T, v T) *SCase[T] {
	return &SCase[T]{c: selCase{ch: W.stateOf(chanPtrS(ch), cap(ch)), send: true, val: v, vh: HashAny(v)}}
}

// Select replaces a select statement; it returns the index of the chosen case or
// -1 for default.
//
//go:norace
func Select(hasDefault bool, cases ...Case) int {
	p := &pending{kind: OpSelect, hasDefault: hasDefault, cases: make([]selCase, len(cases))}
	for i, c := range cases {
		p.cases[i] = c.sel()
	}
	r := W.op(p)
	if r.idx >= 0 {
		cases[r.idx].set(r.val, r.ok)
	}
	return r.idx
}

// Choose is explicit data nondeterminism for harness threads: every value in
// [0,n) is explored.
//
//go:norace
func Choose(n int) int {
	if n <= 1 {
		return 0
	}
	return W.op(&pending{kind: OpChoose, n: n}).idx
}

// Yield is a plain scheduling point.
//
//go:norace
func Yield() { W.op(&pending{kind: OpYield}) }

// Block parks until b.Ready() and then calls b.Acquire (vsync).
//
//go:norace
func Block(b Blocker) { W.op(&pending{kind: OpBlock, blk: b}) }

// Mark declares the state of a harness thread at a loop head: the round digest
// is reset to h.
//
//go:norace
func Mark(h uint64) {
	if !W.Opt.KeyHistory {
		W.cur.digest = Mix(0x3a7c, h)
	} else {
		W.cur.digest = Mix(W.cur.digest, h)
	}
}

// Cur returns the running thread.
//
//go:norace
func Cur() *Thread { return W.cur }

// Go replaces a go statement of library code.
//
//go:norace
func Go(name string, root any, fn func()) {
	W.spawn(name, root, true, fn)
}

// Spawn starts a harness thread.
//
//go:norace
func Spawn(name string, fn func()) *Thread {
	return W.spawn(name, nil, false, fn)
}

//go:norace
func (w *World) spawn(name string, root any, lib bool, fn func()) *Thread {
	t := &Thread{ID: len(w.Threads), Name: name, Lib: lib, Root: root, w: w, wake: make(chan struct{}), needRun: true, digest: 1469598103934665603, timeless: !lib}
	if p := w.cur; p != nil {
		if lib {
			t.Path = p.Path + "/" + name
		} else {
			t.Path = fmt.Sprintf("%s/%s#%d", p.Path, name, p.nspawn)
		}
		p.nspawn++
	} else {
		t.Path = name
	}
	t.KeyName = HashString(t.Path)
	if root != nil {
		if rv := reflect.ValueOf(root); rv.Kind() == reflect.Pointer && !rv.IsNil() {
			t.rootPtr = rv.UnsafePointer()
		}
	}
	if lib && w.Opt.ResetDepth != nil {
		t.resetDepth = w.Opt.ResetDepth(name)
	}
	if len(w.Threads) == cap(w.Threads) {
		panic("vrt: too many threads")
	}
	w.Threads = append(w.Threads, t)
	go t.run(fn)
	return t
}

// SetTimed makes clock advances part of the digest of a harness thread.
//
//go:norace
func (t *Thread) SetTimed() { t.timeless = false }

//go:norace
func (t *Thread) run(fn func()) {
	raceDisable()
	<-t.wake
	raceEnable()
	defer t.finish()
	if t.w.dead {
		panic(poison{})
	}
	t.started = true
	if !t.w.Opt.EagerStart && t.ID != 0 {
		// a goroutine that has been created is not running yet: its start is a
		// scheduling point of its own (everything may happen in between)
		t.w.op(&pending{kind: OpYield})
	}
	fn()
}

//go:norace
func (t *Thread) finish() {
	if r := recover(); r != nil {
		if _, ok := r.(poison); !ok {
			t.panicked = r
			if t.w.Opt.Trace {
				buf := make([]byte, 4096)
				n := runtime.Stack(buf, false)
				t.w.TraceLog = append(t.w.TraceLog, fmt.Sprintf("PANIC in %s: %v\n%s", t.Name, r, buf[:n]))
			}
		}
	}
	t.done = true
	t.pend = nil
	raceDisable()
	t.w.toDriver <- struct{}{}
	raceEnable()
}

//go:norace
func recvReady(s *ChanState) bool { return len(s.buf) > 0 || s.Closed || s.Eager || s.endless != nil }

//go:norace
func sendReady(s *ChanState) bool { return s.Closed || len(s.buf) < s.Cap }

//go:norace
func (w *World) nextTimerEvent() (int64, bool) {
	best := int64(0)
	found := false
	for _, tk := range w.tickers {
		if tk.stopped || tk.ch.Eager {
			continue
		}
		if !found || tk.next < best {
			best, found = tk.next, true
		}
	}
	for _, t := range w.Threads {
		if !t.done && t.pend != nil && t.pend.kind == OpSleep && t.pend.until > w.Clock {
			if !found || t.pend.until < best {
				best, found = t.pend.until, true
			}
		}
	}
	return best, found
}

// Enabled computes the enabled transitions in canonical order: the thread that
// made the last transition first, then ascending thread ids; the clock last.
//
//go:norace
func (w *World) computeEnabled() []Trans {
	out := w.enabled[:0]
	order := make([]*Thread, 0, len(w.Threads))
	if w.Last != nil && !w.Last.done {
		order = append(order, w.Last)
	}
	for _, t := range w.Threads {
		if t != w.Last && !t.done {
			order = append(order, t)
		}
	}
	for _, t := range order {
		p := t.pend
		if p == nil {
			continue
		}
		switch p.kind {
		case OpClose, OpYield, OpNow:
			out = append(out, Trans{T: t})
		case OpChoose:
			for i := 0; i < p.n; i++ {
				out = append(out, Trans{T: t, Case: i})
			}
		case OpSleep:
			if w.Clock >= p.until {
				out = append(out, Trans{T: t})
			}
		case OpBlock:
			if p.blk.Ready(t) {
				out = append(out, Trans{T: t})
			}
		case OpSelect:
			ready := false
			for i := range p.cases {
				c := &p.cases[i]
				if c.ch == nil {
					continue
				}
				if c.send {
					if sendReady(c.ch) {
						out = append(out, Trans{T: t, Case: i})
						ready = true
					} else if c.ch.Cap == 0 {
						for _, u := range w.Threads {
							if u == t || u.done || u.pend == nil || u.pend.kind != OpSelect {
								continue
							}
							for j := range u.pend.cases {
								uc := &u.pend.cases[j]
								if !uc.send && uc.ch == c.ch {
									out = append(out, Trans{T: t, Case: i, Partner: u, PCase: j})
									ready = true
								}
							}
						}
					}
				} else {
					if recvReady(c.ch) {
						out = append(out, Trans{T: t, Case: i})
						ready = true
					} else if c.ch.Cap == 0 {
						for _, u := range w.Threads {
							if u == t || u.done || u.pend == nil || u.pend.kind != OpSelect {
								continue
							}
							for j := range u.pend.cases {
								uc := &u.pend.cases[j]
								if uc.send && uc.ch == c.ch {
									ready = true
								}
							}
						}
					}
				}
			}
			if !ready && p.hasDefault {
				out = append(out, Trans{T: t, Case: -1})
			}
		}
	}
	if w.Opt.Clock == ClockLapse {
		_, timers := w.nextTimerEvent()
		if timers && len(out) == 0 {
			out = append(out, Trans{Clock: true})
		} else if len(out) > 0 && w.LateUsed < w.Opt.LateBudget && w.Clock < w.Opt.Horizon {
			// a late tick: time passes although somebody could move (also when no
			// timer is pending: real clocks advance between any two reads)
			out = append(out, Trans{Clock: true, Late: true})
		}
	}
	w.enabled = out
	return out
}

//go:norace
func (w *World) emit(ev *Event) {
	ev.Clock = w.Clock
	for _, m := range w.Monitors {
		m.OnEvent(w, ev)
	}
}

// Fail records a property violation found by a monitor; the execution stops.
//
//go:norace
func (w *World) Fail(format string, args ...any) {
	if w.Failure == "" {
		w.Failure = fmt.Sprintf(format, args...)
	}
}

//go:norace
func (w *World) note(t *Thread, kind EventKind, ch *ChanState, idx int, vh uint64, ok bool) {
	cid := uint64(0)
	if ch != nil {
		cid = ch.ID
	}
	okv := uint64(0)
	if ok {
		okv = 1
	}
	if t.Lib && !w.Opt.KeyHistory {
		// A thread that keeps making the identical observation at the identical
		// place (e.g. receiving from a closed channel in a retry loop) would never
		// return to a known state; after obsCap repetitions further ones are not
		// mixed in, so the loop closes in the state graph and is judged there.
		obs := Mix(t.stack, uint64(kind), cid, uint64(idx+2), vh, okv)
		if obs == t.lastObs && !t.ticked {
			t.obsRep++
		} else {
			t.obsRep, t.lastObs = 0, obs
		}
		if t.obsRep >= obsCap {
			t.digest = t.digestBefore
			return
		}
	}
	t.digest = Mix(t.digest, uint64(kind), cid, uint64(idx+2), vh, okv)
}

const obsCap = 8

//go:norace
func (w *World) tracef(format string, args ...any) {
	if w.Opt.Trace && raceEnabled {
		// the driver must not read user values in the race build
		for i, a := range args {
			switch a.(type) {
			case string, int, int64, bool, *ChanState, nil:
			default:
				args[i] = "·"
			}
		}
	}
	if w.Opt.Trace {
		w.TraceLog = append(w.TraceLog, fmt.Sprintf("%4d @%d ", w.Steps, w.Clock)+fmt.Sprintf(format, args...))
	}
}

//go:norace
func (w *World) advanceClock(to int64) {
	d := to - w.Clock
	w.Clock = to
	for _, tk := range w.tickers {
		for !tk.stopped && !tk.ch.Eager && tk.next <= w.Clock {
			if len(tk.ch.buf) < tk.ch.Cap {
				v := tk.val(tk.next)
				tk.ch.buf = append(tk.ch.buf, slot{v, 3})
			}
			if tk.oneShot {
				tk.stopped = true
			} else {
				tk.next += tk.period
			}
		}
	}
	for _, t := range w.Threads {
		if !t.done && !t.timeless {
			t.digest = Mix(t.digest, 0x71c, uint64(d))
			t.ticked = true
		}
	}
}

// Apply performs one transition.
//
//go:norace
func (w *World) apply(tr Trans) {
	w.Steps++
	if tr.Clock {
		var to int64
		if tr.Late {
			w.LateUsed++
			to = w.Clock + w.Opt.Unit
			if to < w.Clock {
				to = 1<<63 - 1
			}
			if ev, ok := w.nextTimerEvent(); ok && ev < to && ev > w.Clock {
				to = ev
			}
		} else {
			to, _ = w.nextTimerEvent()
		}
		w.advanceClock(to)
		w.tracef("clock -> %d late=%v", w.Clock, tr.Late)
		w.emit(&Event{Kind: EvClock})
		return
	}
	t := tr.T
	p := t.pend
	t.steps++
	w.Last = t
	switch p.kind {
	case OpClose:
		if p.ch.Closed {
			t.panicNext = "close of closed channel"
		}
		p.ch.Closed = true
		if raceEnabled {
			t.addHB(&p.ch.sync[p.ch.Cap+1], 2)
		}
		w.note(t, EvClose, p.ch, 0, 0, false)
		w.tracef("%s: close %s", t.Name, p.ch)
		w.emit(&Event{Kind: EvClose, T: t, Ch: p.ch})
	case OpChoose:
		t.res = result{idx: tr.Case}
		w.note(t, EvChoose, nil, tr.Case, 0, false)
		w.tracef("%s: choose %d/%d", t.Name, tr.Case, p.n)
		w.emit(&Event{Kind: EvChoose, T: t, Idx: tr.Case})
	case OpNow:
		t.res = result{}
		w.tracef("%s: now", t.Name)
	case OpSleep:
		w.tracef("%s: slept", t.Name)
	case OpYield:
		if !t.Lib {
			// harness threads have no stack hash: a yield must still move their digest
			// (threads that declare their state with Mark reset it at the next Mark)
			w.note(t, EvOther, nil, 0, 0x71e1d, false)
		}
		w.tracef("%s: yield", t.Name)
	case OpBlock:
		p.blk.Acquire(t)
		w.note(t, EvOther, nil, 0, p.blk.KeyID(), false)
		w.tracef("%s: acquired", t.Name)
	case OpSelect:
		if tr.Case < 0 {
			t.res = result{idx: -1}
			w.note(t, EvDefault, nil, -1, 0, false)
			w.tracef("%s: select default", t.Name)
			w.emit(&Event{Kind: EvDefault, T: t})
			break
		}
		c := &p.cases[tr.Case]
		if c.send {
			if c.ch.Closed {
				t.panicNext = "send on closed channel"
				t.res = result{idx: tr.Case}
				break
			}
			t.res = result{idx: tr.Case}
			w.note(t, EvSend, c.ch, tr.Case, c.vh, true)
			if tr.Partner != nil {
				u := tr.Partner
				u.res = result{idx: tr.PCase, val: c.val, ok: true}
				u.needRun = true
				u.steps++
				w.note(u, EvRecv, c.ch, tr.PCase, c.vh, true)
				if raceEnabled {
					// unbuffered rendezvous: each side acquires what the other had done
					// when it parked on the operation
					u.addHB(&t.out, 1)
					t.addHB(&u.out, 1)
				}
				w.tracef("%s: send %s <- %v  (rendezvous with %s)", t.Name, c.ch, c.val, u.Name)
				w.emit(&Event{Kind: EvSend, T: t, Ch: c.ch, Val: c.val, OK: true, Idx: tr.Case})
				w.emit(&Event{Kind: EvRecv, T: u, Ch: c.ch, Val: c.val, OK: true, Idx: tr.PCase})
			} else {
				c.ch.buf = append(c.ch.buf, slot{c.val, c.vh})
				if raceEnabled && c.ch.Cap > 0 {
					t.addHB(&c.ch.sync[c.ch.sendx], 3)
					c.ch.sendx = (c.ch.sendx + 1) % c.ch.Cap
				}
				w.tracef("%s: send %s <- %v", t.Name, c.ch, c.val)
				w.emit(&Event{Kind: EvSend, T: t, Ch: c.ch, Val: c.val, OK: true, Idx: tr.Case})
			}
		} else {
			var v any
			var vh uint64
			ok := true
			switch {
			case c.ch.endless != nil:
				v, vh = c.ch.endless.v, c.ch.endless.h
			case len(c.ch.buf) > 0:
				v, vh = c.ch.buf[0].v, c.ch.buf[0].h
				c.ch.buf = c.ch.buf[1:]
				if raceEnabled && c.ch.Cap > 0 && !c.ch.IsTick {
					t.addHB(&c.ch.sync[c.ch.recvx], 3)
					c.ch.recvx = (c.ch.recvx + 1) % c.ch.Cap
				}
			case c.ch.Eager:
				v, vh = nil, 3
			default: // closed
				ok = false
				if raceEnabled {
					t.addHB(&c.ch.sync[c.ch.Cap+1], 1)
				}
			}
			t.res = result{idx: tr.Case, val: v, ok: ok}
			w.note(t, EvRecv, c.ch, tr.Case, vh, ok)
			w.tracef("%s: recv %s -> %v ok=%v", t.Name, c.ch, v, ok)
			w.emit(&Event{Kind: EvRecv, T: t, Ch: c.ch, Val: v, OK: ok, Idx: tr.Case})
		}
	}
	t.needRun = true
}

// runReady lets every thread whose operation completed (and every new thread)
// run to its next operation, one at a time.
//
//go:norace
func (w *World) runReady() {
	for {
		var t *Thread
		for _, u := range w.Threads {
			if u.needRun && !u.done {
				t = u
				break
			}
		}
		if t == nil {
			return
		}
		t.needRun = false
		t.pend = nil
		w.cur = t
		raceDisable()
		t.wake <- struct{}{}
		<-w.toDriver
		raceEnable()
		w.cur = nil
		if t.done {
			w.tracef("%s: returned", t.Name)
			w.emit(&Event{Kind: EvDone, T: t})
		}
	}
}

// Key computes the state key of the current global state.
//
//go:norace
func (w *World) Key() uint64 {
	h := uint64(0)
	var lastRoot any
	var lastRootHash uint64
	for _, t := range w.Threads {
		d := uint64(0)
		if t.done {
			d = 1
			h += Mix(t.KeyName, d)
			continue
		}
		if t.Root != nil && !w.Opt.KeyHistory && !raceEnabled {
			if t.Root != lastRoot {
				lastRoot, lastRootHash = t.Root, HashRoot(t.Root)
			}
			t.rootHash = lastRootHash
		}
		k := Mix(t.KeyName, d, t.digest, t.stack, t.rootHash)
		for i := range t.notes {
			k = Mix(k, t.notes[i].site, t.notes[i].hash)
		}
		if p := t.pend; p != nil {
			k = Mix(k, p.h)
			if p.kind == OpSleep {
				k = Mix(k, uint64(p.until-w.Clock))
			}
		}
		h += k
	}
	for _, c := range w.ChanList {
		cl := uint64(0)
		if c.Closed {
			cl = 1
		}
		k := Mix(c.ID, cl, uint64(len(c.buf)))
		for _, s := range c.buf {
			k = Mix(k, s.h)
		}
		h += k
	}
	for _, o := range w.objs {
		h += o.KeyHash()
	}
	k := Mix(uint64(w.LateUsed), 0x1a7e)
	for _, tk := range w.tickers {
		st := uint64(0)
		if tk.stopped {
			st = 1
		}
		if tk.ch.Eager || tk.stopped {
			k = Mix(k, tk.ch.ID, st)
		} else {
			k = Mix(k, tk.ch.ID, st, uint64(tk.next-w.Clock))
		}
	}
	h += k
	for i, m := range w.Monitors {
		h += Mix(uint64(i)+0x9000, m.Hash())
	}
	return h
}

// RegisterObj adds shared virtual state to the key and returns its identity.
//
//go:norace
func RegisterObj(o KeyedObj) uint64 {
	w := W
	w.objs = append(w.objs, o)
	if t := w.cur; t != nil {
		t.nobj++
		return Mix(t.KeyName, 0x0b1, uint64(t.nobj))
	}
	return Mix(0x0b1, uint64(len(w.objs)))
}

// Picker decides which enabled transition is taken; returning -1 prunes.
type Picker interface {
	Pick(w *World, en []Trans) int
}

// Start runs body as the root thread up to its first operation.
//
//go:norace
func (w *World) Start(body func()) {
	w.spawn("root", nil, false, body)
	w.runReady()
}

// Step computes the enabled set; returns a terminal outcome or Running.
//
//go:norace
func (w *World) Poll() (Outcome, []Trans) {
	for _, t := range w.Threads {
		if t.panicked != nil {
			w.Failure = fmt.Sprintf("panic in thread %s: %v", t.Name, t.panicked)
			return Panicked, nil
		}
	}
	if w.Failure != "" {
		return Failed, nil
	}
	en := w.computeEnabled()
	if len(en) == 0 {
		for _, t := range w.Threads {
			if !t.done {
				return Deadlock, nil
			}
		}
		return Done, nil
	}
	if w.Steps >= w.Opt.MaxSteps {
		return Depth, nil
	}
	return Running, en
}

const spinWindow = 600

type spinRec struct {
	tid    int
	others bool
	loose  uint64
}

// Take applies a transition of the last enabled set and runs the threads.
//
//go:norace
func (w *World) Take(tr Trans) {
	rec := w.Steps >= w.Opt.MaxSteps-spinWindow
	others := false
	tid := -1
	if rec {
		if tr.Clock {
			// time passing while nobody can move is part of a sleeping loop
			others = tr.Late
		} else {
			tid = tr.T.ID
			for _, x := range w.enabled {
				if x.Clock || x.T != tr.T {
					others = true
				}
			}
		}
	}
	w.apply(tr)
	w.runReady()
	if rec {
		w.spin = append(w.spin, spinRec{tid, others, w.looseKey()})
	}
}

// looseKey: stacks, pending operations, root objects, channels and sync
// objects, but no digests and no monitors.
//
//go:norace
func (w *World) looseKey() uint64 {
	h := uint64(0)
	for _, t := range w.Threads {
		if t.done {
			continue
		}
		k := Mix(t.KeyName, t.stack)
		if t.Root != nil && !raceEnabled {
			k = Mix(k, HashRoot(t.Root))
		} else {
			k = Mix(k, t.rootHash)
		}
		if t.pend != nil {
			k = Mix(k, t.pend.h)
		}
		h += k
	}
	for _, c := range w.ChanList {
		cl := uint64(0)
		if c.Closed {
			cl = 1
		}
		h += Mix(c.ID, cl, uint64(len(c.buf)))
	}
	for _, o := range w.objs {
		h += o.KeyHash()
	}
	return h
}

// SpinCheck: after the step limit was hit, decide whether the tail of the
// execution is a proven livelock: one thread moved, nobody else was enabled, and
// the loose state sequence is periodic for at least three periods.
//
//go:norace
func (w *World) SpinCheck() string {
	n := len(w.spin)
	if n < 30 {
		return ""
	}
	tid := -1
	for i := n - 1; i >= 0 && tid < 0; i-- {
		tid = w.spin[i].tid
	}
	if tid < 0 {
		return ""
	}
	for p := 1; p <= n/3; p++ {
		ok := true
		for i := n - 3*p; i < n; i++ {
			r := w.spin[i]
			if (r.tid != tid && r.tid != -1) || r.others {
				ok = false
				break
			}
			if i+p < n && w.spin[i+p].loose != r.loose {
				ok = false
				break
			}
		}
		if ok {
			return fmt.Sprintf("thread %s repeats a cycle of %d operations forever while no other thread can take a step; %s", w.Threads[tid].Name, p, w.Describe())
		}
	}
	return ""
}

// Teardown unwinds every parked thread.
//
//go:norace
func (w *World) Teardown() {
	W = w
	w.dead = true
	for _, t := range w.Threads {
		if !t.done {
			w.cur = t
			raceDisable()
			t.wake <- struct{}{}
			<-w.toDriver
			raceEnable()
		}
	}
	w.cur = nil
}

// Describe renders the threads' states (for reports).
//
//go:norace
func (w *World) Describe() string {
	var sb strings.Builder
	for _, t := range w.Threads {
		st := "returned"
		if !t.done {
			st = "running"
			if p := t.pend; p != nil {
				switch p.kind {
				case OpSelect:
					st = "blocked in"
					for _, c := range p.cases {
						if c.send {
							st += fmt.Sprintf(" send(%s,%v)", c.ch, c.val)
						} else {
							st += fmt.Sprintf(" recv(%s)", c.ch)
						}
					}
					if p.hasDefault {
						st += " default"
					}
				case OpSleep:
					st = fmt.Sprintf("sleeping until %d", p.until)
				case OpClose:
					st = "about to close " + p.ch.String()
				case OpChoose:
					st = "choosing"
				case OpYield:
					st = "yielding"
				case OpBlock:
					st = "blocked on sync object"
				case OpNow:
					st = "reading clock"
				}
			}
		}
		fmt.Fprintf(&sb, "[%s: %s] ", t.Name, st)
	}
	return sb.String()
}

// ---- time (used by vtime) ----

//go:norace
func NowNS() int64 {
	w := W
	if w.Opt.Clock == ClockLapse && w.Opt.LateBudget > 0 && w.cur != nil {
		w.op(&pending{kind: OpNow})
	}
	return w.Clock
}

//go:norace
func SleepNS(d int64) {
	w := W
	if d <= 0 {
		return
	}
	if d < w.Opt.EagerBelow || w.Opt.Clock == ClockNone {
		// "no time": a yield - but the requested duration is part of the pending
		// operation (and so of the state key): a sleep whose argument changes from
		// round to round must not look like the same state
		w.op(&pending{kind: OpYield, n: int(d)})
		return
	}
	until := w.Clock + d
	if until < w.Clock {
		until = 1<<63 - 1 // the virtual clock saturates at the top of int64
	}
	w.op(&pending{kind: OpSleep, until: until})
}

// TickerHandle is the scheduler side of a vtime.Ticker / Timer.
type TickerHandle struct{ tk *ticker }

//go:norace
func NewTickerNS(ch *ChanState, d int64, oneShot bool, val func(int64) any) TickerHandle {
	w := W
	tk := &ticker{period: d, next: w.Clock + d, ch: ch, oneShot: oneShot, val: val}
	ch.IsTick = true
	if !oneShot && (d < w.Opt.EagerBelow || w.Opt.Clock == ClockNone) {
		ch.Eager = true
	}
	w.tickers = append(w.tickers, tk)
	return TickerHandle{tk}
}

//go:norace
func (h TickerHandle) Stop() bool {
	was := !h.tk.stopped
	h.tk.stopped = true
	h.tk.ch.Eager = false
	return was
}

//go:norace
func (h TickerHandle) Reset(d int64) {
	w := W
	h.tk.period = d
	h.tk.next = w.Clock + d
	h.tk.stopped = false
	if !h.tk.oneShot && (d < w.Opt.EagerBelow || w.Opt.Clock == ClockNone) {
		h.tk.ch.Eager = true
	} else {
		h.tk.ch.Eager = false
	}
}
