//go:build !race

package vrt

import "unsafe"

const raceEnabled = false

func raceDisable()                 {}
func raceEnable()                  {}
func raceAcquire(p unsafe.Pointer) {}
func raceRelease(p unsafe.Pointer) {}

// RaceErrors returns the number of reports of the race detector so far.
func RaceErrors() int { return 0 }

func RaceAcq(p *byte) {}
func RaceRel(p *byte) {}
