//go:build race

package vrt

import (
	"runtime"
	"unsafe"
)

const raceEnabled = true

//go:norace
func raceDisable() { runtime.RaceDisable() }

//go:norace
func raceEnable() { runtime.RaceEnable() }

//go:norace
func raceAcquire(p unsafe.Pointer) { runtime.RaceAcquire(p) }

//go:norace
func raceRelease(p unsafe.Pointer) { runtime.RaceReleaseMerge(p) }

// RaceErrors returns the number of reports of the race detector so far.
//
//go:norace
func RaceErrors() int { return runtime.RaceErrors() }

//go:norace
func RaceAcq(p *byte) { runtime.RaceAcquire(unsafe.Pointer(p)) }

//go:norace
func RaceRel(p *byte) { runtime.RaceReleaseMerge(unsafe.Pointer(p)) }
