// Package vtime replaces package time in the rewritten sources.
package vtime

import (
	"time"

	"cqosverif/vrt"
)

type (
	Duration = time.Duration
	Time     = time.Time
	Month    = time.Month
	Weekday  = time.Weekday
	Location = time.Location
)

const (
	Nanosecond  = time.Nanosecond
	Microsecond = time.Microsecond
	Millisecond = time.Millisecond
	Second      = time.Second
	Minute      = time.Minute
	Hour        = time.Hour
)

const (
	RFC3339     = time.RFC3339
	RFC3339Nano = time.RFC3339Nano
)

var (
	ParseDuration = time.ParseDuration
	Unix          = time.Unix
	UnixMilli     = time.UnixMilli
	UnixMicro     = time.UnixMicro
	Date          = time.Date
	UTC           = time.UTC
)

//go:norace
func at(ns int64) Time { return vrt.Epoch.Add(Duration(ns)) }

//go:norace
func Now() Time { return at(vrt.NowNS()) }

//go:norace
func Since(t Time) Duration { return Now().Sub(t) }

//go:norace
func Until(t Time) Duration { return t.Sub(Now()) }

//go:norace
func Sleep(d Duration) { vrt.SleepNS(int64(d)) }

//go:norace
func tickVal(ns int64) any { return at(ns) }

type Ticker struct {
	C <-chan Time
	h vrt.TickerHandle
}

//go:norace
func NewTicker(d Duration) *Ticker {
	if d <= 0 {
		panic("non-positive interval for NewTicker")
	}
	ch := vrt.MakeChan[Time](1)
	return &Ticker{C: ch, h: vrt.NewTickerNS(vrt.StateOf[Time](ch), int64(d), false, tickVal)}
}

//go:norace
func (t *Ticker) Stop() { t.h.Stop() }

//go:norace
func (t *Ticker) Reset(d Duration) {
	if d <= 0 {
		panic("non-positive interval for Ticker.Reset")
	}
	t.h.Reset(int64(d))
}

// VrtKey: a ticker's state lives in the world key.
//
//go:norace
func (t *Ticker) VrtKey() uint64 { return vrt.Mix(0x71c4, vrt.StateOf(t.C).ID) }

//go:norace
func Tick(d Duration) <-chan Time {
	if d <= 0 {
		return nil
	}
	return NewTicker(d).C
}

type Timer struct {
	C <-chan Time
	h vrt.TickerHandle
}

//go:norace
func NewTimer(d Duration) *Timer {
	ch := vrt.MakeChan[Time](1)
	if d <= 0 {
		d = 1
	}
	return &Timer{C: ch, h: vrt.NewTickerNS(vrt.StateOf[Time](ch), int64(d), true, tickVal)}
}

//go:norace
func (t *Timer) Stop() bool { return t.h.Stop() }

//go:norace
func (t *Timer) Reset(d Duration) bool {
	if d <= 0 {
		d = 1
	}
	was := t.h.Stop()
	t.h.Reset(int64(d))
	return was
}

//go:norace
func (t *Timer) VrtKey() uint64 { return vrt.Mix(0x71c5, vrt.StateOf(t.C).ID) }

//go:norace
func After(d Duration) <-chan Time { return NewTimer(d).C }

// AfterFunc runs f in its own virtual thread after d.
//
//go:norace
func AfterFunc(d Duration, f func()) *Timer {
	t := NewTimer(d)
	c := t.C
	vrt.Go("time.AfterFunc", nil, func() {
		if _, ok := vrt.Recv2(c); ok {
			f()
		}
	})
	return t
}
