package vrt

import (
	"reflect"
	"sort"
	"strings"
	"time"
	"unsafe"
)

//go:norace
func Mix(h uint64, vs ...uint64) uint64 {
	for _, v := range vs {
		h ^= v + 0x9e3779b97f4a7c15
		h *= 0xff51afd7ed558ccd
		h ^= h >> 32
	}
	return h
}

//go:norace
func HashString(s string) uint64 {
	h := uint64(14695981039346656037)
	for i := 0; i < len(s); i++ {
		h ^= uint64(s[i])
		h *= 1099511628211
	}
	return h
}

// Keyed values hash themselves (vsync objects: identity only, their state is in
// the world key; harness item types).
type Keyed interface {
	VrtKey() uint64
}

var timeType = reflect.TypeOf(time.Time{})
var keyedType = reflect.TypeOf((*Keyed)(nil)).Elem()

// HashAny hashes a value travelling through a channel.
//
//go:norace
func HashAny(v any) uint64 {
	switch x := v.(type) {
	case nil:
		return 7
	case int:
		return Mix(1, uint64(x))
	case uint:
		return Mix(2, uint64(x))
	case struct{}:
		return 3
	case bool:
		if x {
			return 4
		}
		return 5
	case Keyed:
		return x.VrtKey()
	}
	hs := hasher{}
	return hs.value(reflect.ValueOf(v), 0)
}

// HashRoot is the reflective deep hash of the object a library thread was
// started on: every field, maps as multisets, slices by content, channels by
// virtual identity, pointers followed, functions skipped, times relative to the
// virtual clock.
//
//go:norace
func HashRoot(v any) uint64 {
	hs := hasher{}
	rv := reflect.ValueOf(v)
	if rv.Kind() == reflect.Pointer && !rv.IsNil() {
		hs.self = rv.UnsafePointer()
	}
	return hs.value(rv, 0)
}

type hasher struct {
	seen []unsafe.Pointer
	self unsafe.Pointer
}

// otherRoot: p is the object another thread was started on (its state belongs
// to that thread's key and must not be read from here).
//
//go:norace
func (hs *hasher) otherRoot(p unsafe.Pointer) (int, bool) {
	if hs.self == nil || p == hs.self {
		return 0, false
	}
	for i, t := range W.Threads {
		if t.rootPtr != nil && t.rootPtr == p {
			return i, true
		}
	}
	return 0, false
}

//go:norace
func (hs *hasher) value(v reflect.Value, depth int) uint64 {
	if !v.IsValid() {
		return 11
	}
	if depth > 24 {
		return 12
	}
	t := v.Type()
	if t.PkgPath() == "sync/atomic" {
		return 16 // atomics are shared by design; their value is not thread state
	}
	if t == timeType {
		// only exported-path times can be read through Interface; use the
		// unexported-safe route: wall/ext are not needed, compute through a copy
		tm := timeOf(v)
		if tm.IsZero() {
			return 13
		}
		return Mix(14, uint64(tm.UnixNano()-epochNS-W.Clock))
	}
	if v.CanInterface() && t.Implements(keyedType) {
		if (v.Kind() == reflect.Pointer || v.Kind() == reflect.Interface) && v.IsNil() {
			return 15
		}
		return v.Interface().(Keyed).VrtKey()
	}
	switch v.Kind() {
	case reflect.Bool:
		if v.Bool() {
			return 21
		}
		return 22
	case reflect.Int, reflect.Int8, reflect.Int16, reflect.Int32, reflect.Int64:
		return Mix(23, uint64(v.Int()))
	case reflect.Uint, reflect.Uint8, reflect.Uint16, reflect.Uint32, reflect.Uint64, reflect.Uintptr:
		return Mix(24, v.Uint())
	case reflect.Float32, reflect.Float64:
		return Mix(25, uint64(int64(v.Float()*1e6)))
	case reflect.String:
		return Mix(26, HashString(v.String()))
	case reflect.Chan:
		if v.IsNil() {
			return 27
		}
		p := v.UnsafePointer()
		if s, ok := W.chanByPtr(p); ok {
			return Mix(28, s.ID)
		}
		return 29
	case reflect.Func:
		return 30
	case reflect.Pointer:
		if v.IsNil() {
			return 31
		}
		p := v.UnsafePointer()
		if _, other := hs.otherRoot(p); other {
			return 44
		}
		for i, q := range hs.seen {
			if q == p {
				return Mix(32, uint64(i))
			}
		}
		// pointer to a keyed object (vsync etc.)?
		if k, ok := keyedPtr(v); ok {
			return k
		}
		hs.seen = append(hs.seen, p)
		return Mix(33, hs.value(v.Elem(), depth+1))
	case reflect.Interface:
		if v.IsNil() {
			return 34
		}
		return Mix(35, hs.value(v.Elem(), depth+1))
	case reflect.Struct:
		if raceEnabled && strings.HasSuffix(t.Name(), "Opts") || raceEnabled && strings.HasPrefix(t.Name(), "Opts[") || raceEnabled && strings.HasPrefix(t.Name(), "SimpleOpts[") {
			// race build: option values are shared with the user (e.g. the caller's
			// Inputs map, which it may reuse); they are not state of the thread and
			// reading them from here would be reported against the user's writes
			return 45
		}
		h := uint64(36)
		for i := 0; i < v.NumField(); i++ {
			h = Mix(h, hs.value(v.Field(i), depth+1))
		}
		return h
	case reflect.Slice:
		if v.IsNil() {
			return 37
		}
		h := Mix(38, uint64(v.Len()))
		for i := 0; i < v.Len(); i++ {
			h = Mix(h, hs.value(v.Index(i), depth+1))
		}
		return h
	case reflect.Array:
		h := uint64(39)
		for i := 0; i < v.Len(); i++ {
			h = Mix(h, hs.value(v.Index(i), depth+1))
		}
		return h
	case reflect.Map:
		if v.IsNil() {
			return 40
		}
		ks := make([]uint64, 0, v.Len())
		it := v.MapRange()
		for it.Next() {
			ks = append(ks, Mix(hs.value(it.Key(), depth+1), hs.value(it.Value(), depth+1)))
		}
		sort.Slice(ks, func(i, j int) bool { return ks[i] < ks[j] })
		h := Mix(41, uint64(len(ks)))
		for _, k := range ks {
			h = Mix(h, k)
		}
		return h
	case reflect.UnsafePointer:
		return 42
	}
	return 43
}

// keyedPtr: a pointer whose type implements Keyed but that sits in an unexported
// field (CanInterface false). The object is re-materialised through its address.
//
//go:norace
func keyedPtr(v reflect.Value) (uint64, bool) {
	if !v.Type().Implements(keyedType) {
		return 0, false
	}
	nv := reflect.NewAt(v.Type().Elem(), v.UnsafePointer())
	return nv.Interface().(Keyed).VrtKey(), true
}

const epochNS = int64(1_000_000_000) * 1_000_000

// Epoch is virtual time zero.
var Epoch = time.Unix(0, epochNS)

//go:norace
func timeOf(v reflect.Value) time.Time {
	if v.CanInterface() {
		return v.Interface().(time.Time)
	}
	if v.CanAddr() {
		return *(*time.Time)(unsafe.Pointer(v.UnsafeAddr()))
	}
	// not addressable: copy field-wise (wall uint64, ext int64, loc *Location)
	cp := reflect.New(timeType).Elem()
	wall := v.Field(0).Uint()
	ext := v.Field(1).Int()
	*(*uint64)(unsafe.Pointer(cp.UnsafeAddr())) = wall
	*(*int64)(unsafe.Add(unsafe.Pointer(cp.UnsafeAddr()), 8)) = ext
	return cp.Interface().(time.Time)
}
