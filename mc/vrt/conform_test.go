package vrt

import (
	"fmt"
	"testing"
)

// Conformance of the virtual channel against the native Go channel: every
// sequence of up to 5 operations out of
//
//	try-send v, try-recv, blocking send, blocking recv, close, len
//
// on capacities 0..2, executed by a single thread. Natively the blocking forms
// are probed with a select/default first (single-threaded, a blocking
// operation that is not ready would deadlock); in the virtual runtime they are
// issued for real and "would block" must show as a DEADLOCK outcome. Results
// compared: value, ok, selected/default, panic text, len after every step.

type cop struct {
	kind int // 0 try-send, 1 try-recv, 2 send, 3 recv, 4 close, 5 len
}

func (o cop) String() string {
	return [...]string{"trysend", "tryrecv", "send", "recv", "close", "len"}[o.kind]
}

// native executes the sequence on a real channel; it stops at the first
// operation that would block forever or panics.
func native(capacity int, ops []cop) (log []string) {
	ch := make(chan int, capacity)
	next := 1
	defer func() {
		if r := recover(); r != nil {
			log = append(log, fmt.Sprint("panic: ", r))
		}
	}()
	for _, o := range ops {
		switch o.kind {
		case 0, 2:
			select {
			case ch <- next:
				log = append(log, fmt.Sprintf("sent %d", next))
				next++
			default:
				if o.kind == 2 {
					log = append(log, "BLOCKED")
					return
				}
				log = append(log, "send default")
			}
		case 1, 3:
			select {
			case v, ok := <-ch:
				log = append(log, fmt.Sprintf("recv %d %v", v, ok))
			default:
				if o.kind == 3 {
					log = append(log, "BLOCKED")
					return
				}
				log = append(log, "recv default")
			}
		case 4:
			close(ch)
			log = append(log, "closed")
		case 5:
			log = append(log, fmt.Sprintf("len %d", len(ch)))
		}
		log = append(log, fmt.Sprintf("[len %d]", len(ch)))
	}
	return
}

func virtual(capacity int, ops []cop) (log []string) {
	w := NewWorld(Options{Clock: ClockNone, MaxSteps: 1000})
	blocked := false
	w.Start(func() {
		ch := MakeChan[int](capacity)
		next := 1
		for _, o := range ops {
			switch o.kind {
			case 0:
				c := CaseSend[int](ch, next)
				if Select(true, c) == 0 {
					log = append(log, fmt.Sprintf("sent %d", next))
					next++
				} else {
					log = append(log, "send default")
				}
			case 2:
				blocked = true
				Send[int](ch, next)
				blocked = false
				log = append(log, fmt.Sprintf("sent %d", next))
				next++
			case 1:
				c := CaseRecv[int](ch)
				if Select(true, c) == 0 {
					log = append(log, fmt.Sprintf("recv %d %v", c.V, c.OK))
				} else {
					log = append(log, "recv default")
				}
			case 3:
				blocked = true
				v, ok := Recv2[int](ch)
				blocked = false
				log = append(log, fmt.Sprintf("recv %d %v", v, ok))
			case 4:
				Close[int](ch)
				log = append(log, "closed")
			case 5:
				log = append(log, fmt.Sprintf("len %d", Len[int](ch)))
			}
			log = append(log, fmt.Sprintf("[len %d]", Len[int](ch)))
		}
	})
	for {
		out, en := w.Poll()
		if out == Panicked {
			log = append(log, "panic: "+fmt.Sprint(w.Threads[0].panicked))
			break
		}
		if out != Running {
			if out == Deadlock && blocked {
				log = append(log, "BLOCKED")
			}
			break
		}
		w.Take(en[0])
	}
	w.Teardown()
	return
}

func TestConformChannel(t *testing.T) {
	total := 0
	var rec func(capacity int, ops []cop)
	rec = func(capacity int, ops []cop) {
		if len(ops) > 0 {
			total++
			n := native(capacity, ops)
			v := virtual(capacity, ops)
			if fmt.Sprint(n) != fmt.Sprint(v) {
				t.Fatalf("capacity %d ops %v:\n native  %v\n virtual %v", capacity, ops, n, v)
			}
		}
		if len(ops) == 5 {
			return
		}
		for k := 0; k < 6; k++ {
			rec(capacity, append(append([]cop{}, ops...), cop{k}))
		}
	}
	for c := 0; c <= 2; c++ {
		rec(c, nil)
	}
	t.Logf("%d operation sequences compared", total)
}

// Two-thread conformance: a rendezvous on an unbuffered channel and FIFO order
// on a buffered one, all interleavings.
func TestConformTwoThreads(t *testing.T) {
	for capacity := 0; capacity <= 2; capacity++ {
		seen := map[string]bool{}
		var explore func(prefix []int)
		explore = func(prefix []int) {
			var got []int
			w := NewWorld(Options{Clock: ClockNone, MaxSteps: 1000})
			w.Start(func() {
				ch := MakeChan[int](capacity)
				Spawn("p", func() {
					for i := 1; i <= 3; i++ {
						Send[int](ch, i)
					}
					Close[int](ch)
				})
				Spawn("c", func() {
					for {
						v, ok := Recv2[int](ch)
						if !ok {
							return
						}
						got = append(got, v)
					}
				})
			})
			var choices []int
			var widths []int
			for i := 0; ; i++ {
				out, en := w.Poll()
				if out != Running {
					if out != Done {
						t.Fatalf("capacity %d: outcome %v", capacity, out)
					}
					break
				}
				c := 0
				if i < len(prefix) {
					c = prefix[i]
				}
				choices = append(choices, c)
				widths = append(widths, len(en))
				w.Take(en[c])
			}
			w.Teardown()
			if fmt.Sprint(got) != "[1 2 3]" {
				t.Fatalf("capacity %d: received %v", capacity, got)
			}
			seen[fmt.Sprint(choices)] = true
			for i := len(prefix); i < len(choices); i++ {
				for alt := 1; alt < widths[i]; alt++ {
					explore(append(append([]int{}, choices[:i]...), alt))
				}
			}
		}
		explore(nil)
		t.Logf("capacity %d: %d interleavings, all deliver [1 2 3] in order", capacity, len(seen))
	}
}
