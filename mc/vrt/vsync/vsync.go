// Package vsync replaces package sync in the rewritten sources: the same
// primitives on the virtual scheduler. Their state is part of the world key.
package vsync

import (
	"sync"

	"cqosverif/vrt"
)

type Locker = sync.Locker

type reg struct {
	id uint64
}

// ---- Mutex ----

type Mutex struct {
	r      reg
	locked bool
	hb     byte
}

type mutexObj struct{ m *Mutex }

//go:norace
func (o mutexObj) KeyHash() uint64 {
	if o.m.locked {
		return vrt.Mix(o.m.r.id, 1)
	}
	return vrt.Mix(o.m.r.id, 0)
}

//go:norace
func (m *Mutex) init() {
	if m.r.id == 0 {
		m.r.id = vrt.RegisterObj(mutexObj{m})
	}
}

//go:norace
func (m *Mutex) Ready(t *vrt.Thread) bool { return !m.locked }

//go:norace
func (m *Mutex) Acquire(t *vrt.Thread) { m.locked = true }

//go:norace
func (m *Mutex) KeyID() uint64 { return m.r.id }

//go:norace
func (m *Mutex) VrtKey() uint64 { return m.r.id }

//go:norace
func (m *Mutex) Lock() {
	m.init()
	vrt.Block(m)
	vrt.RaceAcq(&m.hb)
}

//go:norace
func (m *Mutex) TryLock() bool {
	m.init()
	vrt.Yield()
	if m.locked {
		return false
	}
	m.locked = true
	vrt.RaceAcq(&m.hb)
	return true
}

//go:norace
func (m *Mutex) Unlock() {
	m.init()
	vrt.Yield()
	if !m.locked {
		panic("sync: unlock of unlocked mutex")
	}
	vrt.RaceRel(&m.hb)
	m.locked = false
}

// ---- RWMutex ----

type RWMutex struct {
	r       reg
	writer  bool
	readers int
	hb      byte
}

type rwObj struct{ m *RWMutex }

//go:norace
func (o rwObj) KeyHash() uint64 {
	w := uint64(0)
	if o.m.writer {
		w = 1
	}
	return vrt.Mix(o.m.r.id, w, uint64(o.m.readers))
}

//go:norace
func (m *RWMutex) init() {
	if m.r.id == 0 {
		m.r.id = vrt.RegisterObj(rwObj{m})
	}
}

type rwW struct{ m *RWMutex }
type rwR struct{ m *RWMutex }

//go:norace
func (b rwW) Ready(t *vrt.Thread) bool { return !b.m.writer && b.m.readers == 0 }

//go:norace
func (b rwW) Acquire(t *vrt.Thread) { b.m.writer = true }

//go:norace
func (b rwW) KeyID() uint64 { return vrt.Mix(b.m.r.id, 1) }

//go:norace
func (b rwR) Ready(t *vrt.Thread) bool { return !b.m.writer }

//go:norace
func (b rwR) Acquire(t *vrt.Thread) { b.m.readers++ }

//go:norace
func (b rwR) KeyID() uint64 { return vrt.Mix(b.m.r.id, 2) }

//go:norace
func (m *RWMutex) VrtKey() uint64 { return m.r.id }

//go:norace
func (m *RWMutex) Lock() { m.init(); vrt.Block(rwW{m}); vrt.RaceAcq(&m.hb) }

//go:norace
func (m *RWMutex) Unlock() {
	if !m.writer {
		panic("sync: Unlock of unlocked RWMutex")
	}
	vrt.RaceRel(&m.hb)
	m.writer = false
}

//go:norace
func (m *RWMutex) RLock() { m.init(); vrt.Block(rwR{m}); vrt.RaceAcq(&m.hb) }

//go:norace
func (m *RWMutex) RUnlock() {
	if m.readers == 0 {
		panic("sync: RUnlock of unlocked RWMutex")
	}
	vrt.RaceRel(&m.hb)
	m.readers--
}

//go:norace
func (m *RWMutex) RLocker() Locker { return rlocker{m} }

type rlocker struct{ m *RWMutex }

//go:norace
func (r rlocker) Lock() { r.m.RLock() }

//go:norace
func (r rlocker) Unlock() { r.m.RUnlock() }

// ---- WaitGroup ----

type WaitGroup struct {
	r  reg
	n  int
	hb byte
}

type wgObj struct{ g *WaitGroup }

//go:norace
func (o wgObj) KeyHash() uint64 { return vrt.Mix(o.g.r.id, uint64(o.g.n)) }

//go:norace
func (g *WaitGroup) init() {
	if g.r.id == 0 {
		g.r.id = vrt.RegisterObj(wgObj{g})
	}
}

//go:norace
func (g *WaitGroup) Ready(t *vrt.Thread) bool { return g.n == 0 }

//go:norace
func (g *WaitGroup) Acquire(t *vrt.Thread) {}

//go:norace
func (g *WaitGroup) KeyID() uint64 { return g.r.id }

//go:norace
func (g *WaitGroup) VrtKey() uint64 { return g.r.id }

//go:norace
func (g *WaitGroup) Add(delta int) {
	g.init()
	vrt.Yield() // every synchronisation operation is a scheduling point
	if delta < 0 {
		vrt.RaceRel(&g.hb)
	}
	g.n += delta
	if g.n < 0 {
		panic("sync: negative WaitGroup counter")
	}
}

//go:norace
func (g *WaitGroup) Done() { g.Add(-1) }

//go:norace
func (g *WaitGroup) Wait() {
	g.init()
	vrt.Block(g)
	vrt.RaceAcq(&g.hb)
}

// ---- Once ----

type Once struct {
	r    reg
	done bool
	m    Mutex
	hb   byte
}

type onceObj struct{ o *Once }

//go:norace
func (o onceObj) KeyHash() uint64 {
	if o.o.done {
		return vrt.Mix(o.o.r.id, 1)
	}
	return vrt.Mix(o.o.r.id, 0)
}

//go:norace
func (o *Once) init() {
	if o.r.id == 0 {
		o.r.id = vrt.RegisterObj(onceObj{o})
	}
}

//go:norace
func (o *Once) VrtKey() uint64 { return o.r.id }

//go:norace
func (o *Once) Do(f func()) {
	o.init()
	if o.done {
		vrt.Yield()
		vrt.RaceAcq(&o.hb)
		return
	}
	o.m.Lock()
	defer o.m.Unlock()
	if !o.done {
		defer o.finish()
		f()
	}
}

//go:norace
func (o *Once) finish() {
	vrt.RaceRel(&o.hb)
	o.done = true
}

// ---- Cond ----

type Cond struct {
	L       Locker
	r       reg
	waiters []*condWait
}

type condWait struct {
	c     *Cond
	woken bool
}

//go:norace
func (cw *condWait) Ready(t *vrt.Thread) bool { return cw.woken }

//go:norace
func (cw *condWait) Acquire(t *vrt.Thread) {}

//go:norace
func (cw *condWait) KeyID() uint64 { return cw.c.r.id }

type condObj struct{ c *Cond }

//go:norace
func (o condObj) KeyHash() uint64 {
	n := uint64(0)
	for _, w := range o.c.waiters {
		if !w.woken {
			n++
		}
	}
	return vrt.Mix(o.c.r.id, n)
}

//go:norace
func NewCond(l Locker) *Cond { return &Cond{L: l} }

//go:norace
func (c *Cond) init() {
	if c.r.id == 0 {
		c.r.id = vrt.RegisterObj(condObj{c})
	}
}

//go:norace
func (c *Cond) Wait() {
	c.init()
	cw := &condWait{c: c}
	c.waiters = append(c.waiters, cw)
	c.L.Unlock()
	vrt.Block(cw)
	c.L.Lock()
}

//go:norace
func (c *Cond) Signal() {
	c.init()
	for i, w := range c.waiters {
		if !w.woken {
			w.woken = true
			c.waiters = append(c.waiters[:i:i], c.waiters[i+1:]...)
			return
		}
	}
}

//go:norace
func (c *Cond) Broadcast() {
	c.init()
	for _, w := range c.waiters {
		w.woken = true
	}
	c.waiters = nil
}

// ---- passthroughs ----

type Map = sync.Map

// Pool models sync.Pool: Get and Put are scheduling points; Get yields any
// object that was Put earlier (every choice is explored) or a new one.
// Package-level pools survive executions, so the content is kept per world.
type Pool struct {
	New func() any

	r     reg
	w     *vrt.World
	items []any
}

type poolObj struct{ p *Pool }

//go:norace
func (o poolObj) KeyHash() uint64 { return vrt.Mix(o.p.r.id, uint64(len(o.p.items))) }

//go:norace
func (p *Pool) attach() {
	if p.w != vrt.W {
		p.w, p.items, p.r.id = vrt.W, nil, 0
	}
	if p.r.id == 0 {
		p.r.id = vrt.RegisterObj(poolObj{p})
	}
}

//go:norace
func (p *Pool) Get() any {
	p.attach()
	vrt.Yield()
	k := vrt.Choose(len(p.items) + 1)
	if k == len(p.items) {
		if p.New != nil {
			return p.New()
		}
		return nil
	}
	x := p.items[k]
	p.items = append(p.items[:k:k], p.items[k+1:]...)
	return x
}

//go:norace
func (p *Pool) Put(x any) {
	p.attach()
	vrt.Yield()
	if x == nil {
		return
	}
	p.items = append(p.items, x)
}

//go:norace
func OnceFunc(f func()) func() {
	var o Once
	return func() { o.Do(f) }
}
