// Package explore is the stateful, re-execution based depth-first explorer over
// executions of a closed system running on vrt.
package explore

import (
	"encoding/json"
	"fmt"
	"os"
	"regexp"
	"sort"
	"strings"
	"time"

	"cqosverif/vrt"
)

// Instance is one freshly built closed system (one per execution).
type Instance struct {
	Body func() // root thread
	// Terminal is evaluated in every terminal state (DONE, DEADLOCK) and for SPIN;
	// it returns "" or the violated clause.
	Terminal func(w *vrt.World, out vrt.Outcome) string
	// State is evaluated in every newly reached state (state oracle); "" = fine.
	State func(w *vrt.World) string
	// Goal is the liveness goal, a stable predicate; evaluated in every new state.
	// Every bottom strongly connected component of the explored graph must
	// satisfy it. nil = no liveness obligation.
	Goal func(w *vrt.World) bool
	// Observe renders the terminal observation (for the histogram of distinct
	// outcomes; vacuity check).
	Observe  func(w *vrt.World) string
	Counters func() map[string]int
	// Project renders the property-relevant (monitor) state canonically; used by
	// the key-mode cross-check: it must be a function of what the monitors hash.
	Project func(w *vrt.World) string
}

// Scenario describes a closed system and how to build it.
type Scenario struct {
	Name   string
	Config string // rendered configuration
	Opt    vrt.Options
	Build  func(w *vrt.World) *Instance
}

type node struct {
	parent *node
	choice int32
	state  int32
	depth  int32
	cost   int16
	key    uint64
}

// Result of exploring one scenario.
type Result struct {
	Scenario       string         `json:"scenario"`
	Config         string         `json:"config"`
	States         int            `json:"states"`
	Transitions    int            `json:"transitions"`
	Executions     int            `json:"executions"`
	Outcomes       map[string]int `json:"outcomes"`
	Observations   int            `json:"distinct_observations"`
	ObsSamples     []string       `json:"observation_samples,omitempty"`
	MaxDepth       int            `json:"max_depth"`
	Exhaustive     bool           `json:"exhaustive"`
	Bound          int            `json:"preemption_bound"`
	CompletedBound int            `json:"completed_preemption_bound"`
	BoundRuns      []string       `json:"bounded_runs,omitempty"`
	BudgetHit      bool           `json:"budget_hit"`
	SCCs           int            `json:"sccs,omitempty"`
	BottomSCCs     int            `json:"bottom_sccs,omitempty"`
	Counters       map[string]int `json:"counters,omitempty"`
	Violation      *Violation     `json:"violation,omitempty"`
	Suspects       []string       `json:"suspected_merge_artefacts,omitempty"`
	WallS          float64        `json:"wall_s"`
	SampleTrace    []string       `json:"sample_trace,omitempty"`
	InfraError     string         `json:"infra_error,omitempty"`
}

type Violation struct {
	Scenario string   `json:"scenario"`
	Config   string   `json:"config"`
	Message  string   `json:"message"`
	Outcome  string   `json:"outcome"`
	Choices  []int32  `json:"choices"`
	Trace    []string `json:"trace,omitempty"`
	Threads  string   `json:"threads,omitempty"`
}

type Explorer struct {
	Sc          *Scenario
	Bound       int // preemption bound, -1 = unbounded
	Budget      time.Duration
	Graph       bool // record edges and check bottom SCCs
	MaxSt       int  // cap on states (0 = none)
	visited     map[uint64]int32
	cost        []int16
	flags       []uint8
	edges       [][2]int32
	nodes       []*node // representative node per state
	res         Result
	obs         map[string]int
	start       time.Time
	lastPath    []int32
	countPruned bool
	buckets     [][]*node
	pending     int
	minDepth    int
	DeepFirst   bool // take the deepest pending alternative first (classic DFS order)
	Skipped     int  // alternatives not taken because of the preemption bound
	// CollectProj: record Project() of every state reached (cross-check)
	CollectProj bool
	Proj        map[string]bool
	DepthIsEnd  bool // treat the step limit as an ordinary end of the execution
}

const (
	flagTerminal = 1
	flagGoal     = 2
)

type nondet struct{ msg string }

func (e *Explorer) path(n *node) []int32 {
	var p []int32
	for x := n; x != nil && x.parent != nil; x = x.parent {
		p = append(p, x.choice)
	}
	for i, j := 0, len(p)-1; i < j; i, j = i+1, j-1 {
		p[i], p[j] = p[j], p[i]
	}
	return p
}

func preemptCost(w *vrt.World, en []vrt.Trans, c int) int16 {
	// switching away from the thread that made the last transition while it is
	// still enabled is a preemption; so is a late clock tick
	tr := en[c]
	if tr.Clock {
		return 0
	}
	if w.Last == nil || tr.T == w.Last {
		return 0
	}
	for _, x := range en {
		if !x.Clock && x.T == w.Last {
			// yields and polls are voluntary
			if w.Last.PendingKind() == vrt.OpYield {
				return 0
			}
			return 1
		}
	}
	return 0
}

// Run explores the scenario.
func (e *Explorer) Run() (res *Result) {
	e.start = time.Now()
	e.visited = map[uint64]int32{}
	e.obs = map[string]int{}
	e.res = Result{Scenario: e.Sc.Name, Config: e.Sc.Config, Outcomes: map[string]int{}, Exhaustive: true, Bound: e.Bound}
	res = &e.res
	defer func() {
		if r := recover(); r != nil {
			if nd, ok := r.(nondet); ok {
				e.res.InfraError = "NONDETERMINISM: " + nd.msg
				e.res.Exhaustive = false
				return
			}
			panic(r)
		}
	}()
	root := &node{state: -1}
	stack := []*node{root}
	for len(stack) > 0 || e.pending > 0 {
		if e.Budget > 0 && time.Since(e.start) > e.Budget {
			e.res.BudgetHit = true
			e.res.Exhaustive = false
			break
		}
		if e.MaxSt > 0 && len(e.visited) > e.MaxSt {
			e.res.BudgetHit = true
			e.res.Exhaustive = false
			break
		}
		// pending alternatives are taken shallowest first (buckets by depth):
		// replaying a short prefix is cheap, and a run that is cut by its budget has
		// then covered every state up to some depth instead of an arbitrary deep corner
		var n *node
		if e.DeepFirst {
			n = stack[len(stack)-1]
			stack = stack[:len(stack)-1]
		} else {
			for _, x := range stack {
				d := int(x.depth)
				for len(e.buckets) <= d {
					e.buckets = append(e.buckets, nil)
				}
				e.buckets[d] = append(e.buckets[d], x)
				e.pending++
				if d < e.minDepth {
					e.minDepth = d
				}
			}
			stack = stack[:0]
			for e.minDepth < len(e.buckets) && len(e.buckets[e.minDepth]) == 0 {
				e.minDepth++
			}
			if e.minDepth >= len(e.buckets) {
				break
			}
			b := e.buckets[e.minDepth]
			n = b[len(b)-1]
			e.buckets[e.minDepth] = b[:len(b)-1]
			e.pending--
		}
		stack = e.execute(n, stack)
		if e.res.Violation != nil {
			break
		}
	}
	e.res.States = len(e.visited)
	e.res.Observations = len(e.obs)
	keys := make([]string, 0, len(e.obs))
	for k := range e.obs {
		keys = append(keys, k)
	}
	sort.Strings(keys)
	if len(keys) > 6 {
		keys = keys[:6]
	}
	e.res.ObsSamples = keys
	if e.res.Violation == nil && e.Graph && e.res.Exhaustive && e.Bound < 0 {
		e.checkLiveness()
	}
	e.res.WallS = time.Since(e.start).Seconds()
	return res
}

func (e *Explorer) newWorld(trace bool) (*vrt.World, *Instance) {
	opt := e.Sc.Opt
	opt.Trace = trace
	w := vrt.NewWorld(opt)
	inst := e.Sc.Build(w)
	w.Start(inst.Body)
	return w, inst
}

// execute replays the path of n, takes its choice and continues with choice 0
// until the execution ends or reaches a known state.
func (e *Explorer) execute(n *node, stack []*node) []*node {
	e.res.Executions++
	racesBefore := vrt.RaceErrors() // before the world is built: the root thread's set-up code is judged too
	w, inst := e.newWorld(false)
	defer func() {
		w.Teardown()
		if vrt.RaceBuild && e.res.Violation == nil && vrt.RaceErrors() > racesBefore {
			// the race detector judged this schedule: a report is a violation of C20
			e.res.Outcomes["RACE"]++
			v := &Violation{Scenario: e.Sc.Name, Config: e.Sc.Config, Outcome: "RACE", Choices: e.lastPath,
				Message: "C20: the race detector reported a data race on this schedule (report in the race log)"}
			e.res.Violation = v
		}
	}()
	choices := e.path(n)
	e.lastPath = choices
	// replay the prefix up to (not including) the last choice
	var out vrt.Outcome
	var en []vrt.Trans
	for i, c := range choices {
		out, en = w.Poll()
		if out != vrt.Running {
			panic(nondet{fmt.Sprintf("replay ended early at step %d/%d with %v (%s)", i, len(choices), out, w.Failure)})
		}
		if int(c) >= len(en) {
			panic(nondet{fmt.Sprintf("replay: choice %d out of range %d at step %d", c, len(en), i)})
		}
		if i == len(choices)-1 {
			// parent state: its key must be the recorded one
			if n.parent != nil && n.parent.state >= 0 {
				if k := w.Key(); k != n.parent.key {
					panic(nondet{fmt.Sprintf("replay reached a different state at step %d (key %x, recorded %x)", i, k, n.parent.key)})
				}
			}
		}
		w.Take(en[c])
		e.res.Transitions++
	}
	cur := n
	for {
		out, en = w.Poll()
		// a new state (or the initial one)
		if out == vrt.Failed || out == vrt.Panicked {
			e.res.Outcomes[out.String()]++
			e.violation(cur, out, w.Failure)
			return stack
		}
		key := w.Key()
		if idx, ok := e.visited[key]; ok {
			if cur.parent != nil && cur.parent.state >= 0 && e.Graph {
				e.edges = append(e.edges, [2]int32{cur.parent.state, idx})
			}
			if e.Bound >= 0 && cur.cost < e.cost[idx] {
				// reached with a smaller cost: expand again
				e.cost[idx] = cur.cost
				cur.state = idx
				cur.key = key
			} else {
				e.res.Outcomes["PRUNED"]++
				if inst.Counters != nil && inst.Goal == nil || (inst.Counters != nil && e.countPruned) {
					if e.res.Counters == nil {
						e.res.Counters = map[string]int{}
					}
					for k, v := range inst.Counters() {
						e.res.Counters[k] += v
					}
				}
				return stack
			}
		} else {
			idx := int32(len(e.visited))
			e.visited[key] = idx
			e.flags = append(e.flags, 0)
			if e.Bound >= 0 {
				e.cost = append(e.cost, cur.cost)
			}
			if e.Graph {
				e.nodes = append(e.nodes, cur)
				if cur.parent != nil && cur.parent.state >= 0 {
					e.edges = append(e.edges, [2]int32{cur.parent.state, idx})
				}
			}
			cur.state = idx
			cur.key = key
			if e.CollectProj && inst.Project != nil {
				if e.Proj == nil {
					e.Proj = map[string]bool{}
				}
				e.Proj[inst.Project(w)] = true
			}
			if int(cur.depth) > e.res.MaxDepth {
				e.res.MaxDepth = int(cur.depth)
			}
			if inst.State != nil {
				if msg := inst.State(w); msg != "" {
					e.res.Outcomes["VIOLATION"]++
					e.violation(cur, vrt.Failed, msg)
					return stack
				}
			}
			if inst.Goal != nil && inst.Goal(w) {
				e.flags[idx] |= flagGoal
			}
		}
		if out != vrt.Running {
			e.res.Outcomes[out.String()]++
			if out == vrt.Depth && e.DepthIsEnd {
				return stack
			}
			if out == vrt.Depth {
				if spin := detectSpin(w); spin != "" {
					w.SpinInfo = spin
					out = vrt.Spin
					e.res.Outcomes["SPIN"]++
				} else {
					e.res.Exhaustive = false
					return stack
				}
			}
			e.flags[cur.state] |= flagTerminal
			if e.res.SampleTrace == nil && (out == vrt.Done || out == vrt.Deadlock) && !vrt.RaceBuild {
				tr, _, _ := e.Replay(e.path(cur))
				if len(tr) > 80 {
					tr = append(append([]string{}, tr[:60]...), "...")
				}
				e.res.SampleTrace = tr
				vrt.W = w
			}
			if inst.Observe != nil {
				e.obs[out.String()+" "+inst.Observe(w)]++
			} else {
				e.obs[out.String()]++
			}
			if inst.Counters != nil {
				if e.res.Counters == nil {
					e.res.Counters = map[string]int{}
				}
				for k, v := range inst.Counters() {
					e.res.Counters[k] += v
				}
			}
			msg := ""
			if inst.Terminal != nil {
				msg = inst.Terminal(w, out)
			} else if out == vrt.Spin {
				msg = "livelock: " + w.SpinInfo
			}
			if msg != "" {
				e.violation(cur, out, msg)
			}
			return stack
		}
		// push alternatives, continue with choice 0
		for c := len(en) - 1; c >= 1; c-- {
			cost := cur.cost + preemptCost(w, en, c)
			if e.Bound >= 0 && int(cost) > e.Bound {
				e.Skipped++
				continue
			}
			stack = append(stack, &node{parent: cur, choice: int32(c), depth: cur.depth + 1, cost: cost, state: -1})
		}
		next := &node{parent: cur, choice: 0, depth: cur.depth + 1, cost: cur.cost + preemptCost(w, en, 0), state: -1}
		w.Take(en[0])
		e.res.Transitions++
		if vrt.RaceBuild {
			e.lastPath = append(e.lastPath, 0)
		}
		cur = next
	}
}

var hexAddr = regexp.MustCompile(`0x[0-9a-f]{6,}`)

// Stable removes what legitimately differs between two executions of one
// schedule from a message: heap addresses inside printed values.
func Stable(s string) string { return hexAddr.ReplaceAllString(s, "0x?") }

func (e *Explorer) violation(n *node, out vrt.Outcome, msg string) {
	v := &Violation{Scenario: e.Sc.Name, Config: e.Sc.Config, Message: msg, Outcome: out.String(), Choices: e.path(n)}
	// confirm by replaying twice with a trace
	t1, m1, th := e.Replay(v.Choices)
	_, m2, _ := e.Replay(v.Choices)
	if Stable(m1) != Stable(m2) || (m1 == "" && out != vrt.Spin) {
		e.res.InfraError = fmt.Sprintf("NONDETERMINISM: violation %q did not reproduce on replay (%q / %q)", msg, m1, m2)
		e.res.Exhaustive = false
		return
	}
	v.Trace = t1
	v.Threads = th
	e.res.Violation = v
}

// Replay re-executes one schedule (no search) and returns its trace, the
// verdict message ("" if the schedule shows no violation) and the thread states.
func (e *Explorer) Replay(choices []int32) (trace []string, msg string, threads string) {
	opt := e.Sc.Opt
	opt.Trace = true
	w := vrt.NewWorld(opt)
	inst := e.Sc.Build(w)
	w.Start(inst.Body)
	defer w.Teardown()
	i := 0
	for {
		out, en := w.Poll()
		if out == vrt.Failed || out == vrt.Panicked {
			return w.TraceLog, w.Failure, w.Describe()
		}
		if inst.State != nil {
			if m := inst.State(w); m != "" && i >= len(choices) {
				return w.TraceLog, m, w.Describe()
			}
		}
		if out != vrt.Running {
			if out == vrt.Depth {
				if spin := detectSpin(w); spin != "" {
					w.SpinInfo = spin
					out = vrt.Spin
				}
			}
			m := ""
			if inst.Terminal != nil {
				m = inst.Terminal(w, out)
			} else if out == vrt.Spin {
				m = "livelock: " + w.SpinInfo
			}
			return w.TraceLog, m, w.Describe()
		}
		c := 0
		if i < len(choices) {
			c = int(choices[i])
		}
		if c >= len(en) {
			return w.TraceLog, fmt.Sprintf("REPLAY-DIVERGED at step %d", i), w.Describe()
		}
		w.Take(en[c])
		i++
	}
}

// detectSpin: the execution hit the step limit; it is a proven livelock if for
// the last steps only one thread moved, no other thread was enabled, and the
// loose state sequence is periodic.
func detectSpin(w *vrt.World) string {
	return w.SpinCheck()
}

// ---- liveness on the explored graph ----

func (e *Explorer) checkLiveness() {
	n := len(e.flags)
	adj := make([][]int32, n)
	for _, ed := range e.edges {
		adj[ed[0]] = append(adj[ed[0]], ed[1])
	}
	// iterative Tarjan
	index := make([]int32, n)
	low := make([]int32, n)
	onst := make([]bool, n)
	comp := make([]int32, n)
	for i := range index {
		index[i] = -1
		comp[i] = -1
	}
	var st []int32
	var idx int32
	ncomp := int32(0)
	type frame struct {
		v  int32
		ei int
	}
	for s := 0; s < n; s++ {
		if index[s] >= 0 {
			continue
		}
		fr := []frame{{int32(s), 0}}
		index[s], low[s] = idx, idx
		idx++
		st = append(st, int32(s))
		onst[s] = true
		for len(fr) > 0 {
			f := &fr[len(fr)-1]
			v := f.v
			if f.ei < len(adj[v]) {
				u := adj[v][f.ei]
				f.ei++
				if index[u] < 0 {
					index[u], low[u] = idx, idx
					idx++
					st = append(st, u)
					onst[u] = true
					fr = append(fr, frame{u, 0})
				} else if onst[u] && index[u] < low[v] {
					low[v] = index[u]
				}
				continue
			}
			if low[v] == index[v] {
				for {
					u := st[len(st)-1]
					st = st[:len(st)-1]
					onst[u] = false
					comp[u] = ncomp
					if u == v {
						break
					}
				}
				ncomp++
			}
			fr = fr[:len(fr)-1]
			if len(fr) > 0 {
				p := fr[len(fr)-1].v
				if low[v] < low[p] {
					low[p] = low[v]
				}
			}
		}
	}
	e.res.SCCs = int(ncomp)
	size := make([]int32, ncomp)
	bottom := make([]bool, ncomp)
	cyc := make([]bool, ncomp)
	for i := range bottom {
		bottom[i] = true
	}
	for v := 0; v < n; v++ {
		size[comp[v]]++
		for _, u := range adj[v] {
			if comp[u] != comp[v] {
				bottom[comp[v]] = false
			} else {
				cyc[comp[v]] = true
			}
		}
	}
	for c := int32(0); c < ncomp; c++ {
		if !bottom[c] || !cyc[c] {
			continue
		}
		e.res.BottomSCCs++
		// pick a member; goal is stable so any member decides
		var member int32 = -1
		bad := false
		for v := 0; v < n; v++ {
			if comp[v] == c {
				if member < 0 {
					member = int32(v)
				}
				if e.flags[v]&flagGoal == 0 {
					bad = true
					member = int32(v)
					break
				}
			}
		}
		if !bad {
			continue
		}
		// confirm concretely: from the member, run fairly and stay inside
		set := map[uint64]bool{}
		for k, v := range e.visited {
			if comp[v] == c {
				set[k] = true
			}
		}
		ok, why, trace, choices := e.confirmLasso(e.nodes[member], set, int(size[c]))
		if ok {
			e.res.Violation = &Violation{Scenario: e.Sc.Name, Config: e.Sc.Config, Outcome: "LIVELOCK",
				Message: fmt.Sprintf("liveness: a fair run stays forever in a cycle of %d states in which the goal is never reached (%s)", size[c], why),
				Choices: choices, Trace: trace}
			return
		}
		e.res.Suspects = append(e.res.Suspects, fmt.Sprintf("bottom SCC of %d states without goal not confirmed: %s", size[c], why))
	}
}

// confirmLasso replays the path to a member of a bad bottom component and then
// runs round-robin over the enabled transitions (a fair schedule) for several
// laps, checking that the run never leaves the component and never reaches the
// goal.
func (e *Explorer) confirmLasso(member *node, set map[uint64]bool, size int) (bool, string, []string, []int32) {
	choices := e.path(member)
	opt := e.Sc.Opt
	opt.Trace = true
	opt.MaxSteps = len(choices) + 6*size + 200
	w := vrt.NewWorld(opt)
	inst := e.Sc.Build(w)
	w.Start(inst.Body)
	defer w.Teardown()
	for i, c := range choices {
		out, en := w.Poll()
		if out != vrt.Running || int(c) >= len(en) {
			return false, fmt.Sprintf("replay failed at %d", i), nil, nil
		}
		w.Take(en[c])
	}
	all := append([]int32{}, choices...)
	rr := 0
	steps := 4*size + 100
	for i := 0; i < steps; i++ {
		out, en := w.Poll()
		if out != vrt.Running {
			return false, "run ended: " + out.String(), nil, nil
		}
		if !set[w.Key()] {
			return false, "fair run left the component", nil, nil
		}
		if inst.Goal != nil && inst.Goal(w) {
			return false, "goal reached", nil, nil
		}
		c := rr % len(en)
		rr++
		all = append(all, int32(c))
		w.Take(en[c])
	}
	tr := w.TraceLog
	if len(tr) > 120 {
		tr = append(append([]string{}, tr[:40]...), append([]string{"..."}, tr[len(tr)-80:]...)...)
	}
	return true, w.Describe(), tr, all
}

// WriteReplay stores a violation as a replay artefact.
func WriteReplay(dir string, prop string, v *Violation) string {
	os.MkdirAll(dir, 0o755)
	name := strings.NewReplacer("/", "_", " ", "_", ":", "_", ",", "_", "{", "", "}", "", "[", "", "]", "", "\"", "").Replace(v.Scenario + "-" + v.Config)
	if len(name) > 120 {
		name = name[:120]
	}
	p := fmt.Sprintf("%s/%s-%s.json", dir, prop, name)
	b, _ := json.MarshalIndent(v, "", " ")
	os.WriteFile(p, b, 0o644)
	return p
}
