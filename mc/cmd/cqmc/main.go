// cqmc: model checker front end.
//
//	cqmc run '<cfg json>'          explore one configuration, print the result JSON
//	cqmc check <prop> <tier>       run the catalogue of a property, write evidence
//	cqmc replay <file>             re-execute one recorded schedule
//	cqmc list <prop> <tier>        print the catalogue
package main

import (
	"encoding/json"
	"fmt"
	"os"
	"runtime/pprof"
	"time"

	"cqosverif/explore"
	"cqosverif/harness"
)

func main() {
	if len(os.Args) < 2 {
		fmt.Fprintln(os.Stderr, "usage: cqmc run|check|replay|list ...")
		os.Exit(2)
	}
	switch os.Args[1] {
	case "run":
		var c harness.Cfg
		if err := json.Unmarshal([]byte(os.Args[2]), &c); err != nil {
			fmt.Fprintln(os.Stderr, err)
			os.Exit(2)
		}
		if pf := os.Getenv("CQMC_CPUPROFILE"); pf != "" {
			f, _ := os.Create(pf)
			pprof.StartCPUProfile(f)
			defer pprof.StopCPUProfile()
		}
		res := runCfg(c)
		b, _ := json.Marshal(res)
		fmt.Println(string(b))
	case "list":
		for _, c := range harness.Catalogue(os.Args[2], os.Args[3]) {
			fmt.Println(c.String())
		}
	case "check":
		os.Exit(check(os.Args[2], os.Args[3]))
	case "replay":
		os.Exit(replay(os.Args[2]))
	case "pure":
		os.Exit(pure(os.Args[2], os.Args[3]))
	default:
		fmt.Fprintln(os.Stderr, "unknown command")
		os.Exit(2)
	}
}

func runCfg(c harness.Cfg) *explore.Result {
	b, ok := harness.Registry[c.Harness]
	if !ok {
		return &explore.Result{InfraError: "unknown harness " + c.Harness}
	}
	if c.Cross > 0 {
		return crossCheck(c, b)
	}
	if c.Deep > 0 {
		// no merging by state keys: every thread is identified by its full observation
		// history, so a loop-carried local that the state key cannot see (a counter, a
		// growing delay) still separates states; the depth cut is not a verdict
		ch := c
		ch.KeyHistory = true
		ch.MaxSteps = c.Deep
		budget := time.Duration(c.BudgetS) * time.Second
		if budget == 0 {
			budget = 40 * time.Second
		}
		e := &explore.Explorer{Sc: b(ch), Bound: -1, DepthIsEnd: true, Budget: budget}
		r := e.Run()
		r.Config = c.String()
		r.CompletedBound = -1
		return r
	}
	sc := b(c)
	if c.BudgetS == 0 {
		c.BudgetS = 120
	}
	budget := time.Duration(c.BudgetS) * time.Second
	if c.Bound != -1 || c.NoFallback {
		e := &explore.Explorer{Sc: sc, Bound: c.Bound, Graph: c.Graph, MaxSt: c.MaxStates, Budget: budget, DeepFirst: os.Getenv("CQMC_DEEPFIRST") != ""}
		r := e.Run()
		r.CompletedBound = -1
		if r.Exhaustive && c.Bound >= 0 {
			r.CompletedBound = c.Bound
		}
		return r
	}
	// Unbounded exploration with 60 % of the budget; if it does not finish,
	// iterative preemption bounding (0, 1, 2, ...) with the rest: a run cut by the
	// clock covers an arbitrary corner, a completed bound covers every schedule
	// with at most that many preemptions.
	start := time.Now()
	e := &explore.Explorer{Sc: sc, Bound: -1, Graph: c.Graph, MaxSt: c.MaxStates, Budget: budget * 6 / 10}
	r := e.Run()
	r.CompletedBound = -1
	if r.Exhaustive || r.Violation != nil || r.InfraError != "" || !r.BudgetHit {
		return r
	}
	for k := 0; k <= 8; k++ {
		left := budget - time.Since(start)
		if left < 2*time.Second {
			break
		}
		be := &explore.Explorer{Sc: b(c), Bound: k, MaxSt: c.MaxStates, Budget: left}
		br := be.Run()
		r.States += br.States
		r.Transitions += br.Transitions
		r.Executions += br.Executions
		for o, n := range br.Outcomes {
			r.Outcomes[o] += n
		}
		if br.Violation != nil || br.InfraError != "" {
			r.Violation, r.InfraError = br.Violation, br.InfraError
			break
		}
		if !br.Exhaustive {
			r.BoundRuns = append(r.BoundRuns, fmt.Sprintf("bound %d: cut by the clock after %d states", k, br.States))
			break
		}
		r.CompletedBound = k
		r.BoundRuns = append(r.BoundRuns, fmt.Sprintf("bound %d: complete, %d states, %d alternatives beyond the bound", k, br.States, be.Skipped))
		if be.Skipped == 0 {
			r.Exhaustive = true // nothing was cut by the bound: the exploration is complete
			break
		}
	}
	r.WallS = time.Since(start).Seconds()
	return r
}

func replay(file string) int {
	b, err := os.ReadFile(file)
	if err != nil {
		fmt.Fprintln(os.Stderr, err)
		return 2
	}
	var pv struct {
		Engine, Property, Clause, Input, Got string
		GoTest                               string `json:"go_test"`
	}
	if json.Unmarshal(b, &pv) == nil && pv.Engine == "pure" {
		fmt.Printf("pure-function violation of %s\n  clause: %s\n  input:  %s\n  got:    %s\nre-run `./check %s quick` to re-evaluate this input on the current tree; stand-alone test:\n%s\n", pv.Property, pv.Clause, pv.Input, pv.Got, pv.Property, pv.GoTest)
		return 0
	}
	var v explore.Violation
	if err := json.Unmarshal(b, &v); err != nil {
		fmt.Fprintln(os.Stderr, err)
		return 2
	}
	var c harness.Cfg
	if err := json.Unmarshal([]byte(v.Config), &c); err != nil {
		fmt.Fprintln(os.Stderr, err)
		return 2
	}
	bld, ok := harness.Registry[c.Harness]
	if !ok {
		fmt.Fprintln(os.Stderr, "unknown harness", c.Harness)
		return 2
	}
	e := &explore.Explorer{Sc: bld(c), Bound: -1}
	tr, msg, th := e.Replay(v.Choices)
	_, msg2, _ := e.Replay(v.Choices)
	for _, l := range tr {
		fmt.Println(l)
	}
	fmt.Println("threads:", th)
	if explore.Stable(msg) != explore.Stable(msg2) {
		fmt.Println("REPLAY NOT DETERMINISTIC:", msg, "/", msg2)
		return 2
	}
	if msg == "" {
		fmt.Println("replay: the recorded schedule shows no violation on this tree")
		return 0
	}
	fmt.Println("replay verdict:", msg)
	return 1
}

// crossCheck validates the state-key merging: every monitor-visible state that a
// history-keyed exploration (sound without looking inside any thread, cut at
// depth c.Cross) reaches must also be reached by the state-keyed exploration.
func crossCheck(c harness.Cfg, b harness.Builder) *explore.Result {
	budget := time.Duration(c.BudgetS) * time.Second
	if budget == 0 {
		budget = 40 * time.Second
	}
	cs := c
	cs.Cross = 0
	a := &explore.Explorer{Sc: b(cs), Bound: -1, Graph: c.Graph, CollectProj: true, Budget: budget / 2}
	ra := a.Run()
	if ra.Violation != nil || ra.InfraError != "" || !ra.Exhaustive {
		ra.Config = c.String()
		return ra
	}
	ch := cs
	ch.KeyHistory = true
	ch.MaxSteps = c.Cross
	h := &explore.Explorer{Sc: b(ch), Bound: -1, CollectProj: true, DepthIsEnd: true, Budget: budget / 2}
	rh := h.Run()
	missing := 0
	example := ""
	for p := range h.Proj {
		if !a.Proj[p] {
			missing++
			example = p
		}
	}
	ra.Config = c.String()
	if ra.Counters == nil {
		ra.Counters = map[string]int{}
	}
	ra.Counters["crosscheck_state_keyed_projections"] = len(a.Proj)
	ra.Counters["crosscheck_history_keyed_projections"] = len(h.Proj)
	ra.Counters["crosscheck_history_keyed_states"] = rh.States
	ra.Counters["crosscheck_missing"] = missing
	ra.States += rh.States
	ra.Transitions += rh.Transitions
	ra.Executions += rh.Executions
	if missing > 0 {
		ra.InfraError = fmt.Sprintf("KEY-MODE CROSS-CHECK FAILED: %d monitor states reached with history keys (depth %d) are not reached with state keys, e.g. %s", missing, c.Cross, example)
	}
	if rh.Violation != nil {
		ra.Violation = rh.Violation
	}
	return ra
}
