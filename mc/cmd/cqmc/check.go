package main

import (
	"bytes"
	"encoding/json"
	"fmt"
	"os"
	"os/exec"
	"path/filepath"
	"runtime"
	"sort"
	"strconv"
	"strings"
	"sync"
	"time"

	"cqosverif/explore"
	"cqosverif/harness"
	"cqosverif/vrt"
)

var verifDir = func() string {
	if d := os.Getenv("VERIF_DIR"); d != "" {
		return d
	}
	return "/verif"
}()

// outDir: where evidence and replay artefacts go (VERIF_OUT, default the
// verification directory; scratch runs against seeded changes write elsewhere).
var outDir = func() string {
	if d := os.Getenv("VERIF_OUT"); d != "" {
		return d
	}
	return verifDir
}()

type knownFinding struct {
	Status   string `json:"status"` // known | fixed
	Property string `json:"property"`
	What     string `json:"what"`
	Commit   string `json:"commit,omitempty"`
	// signature of a known (unrepaired) finding: all given fields must match
	Harness string `json:"harness,omitempty"`
	Clause  string `json:"clause,omitempty"` // substring of the violation message
	Match   string `json:"match,omitempty"`  // substring of the configuration
}

func loadKnown() []knownFinding {
	b, err := os.ReadFile(filepath.Join(verifDir, "known_findings.json"))
	if err != nil {
		return nil
	}
	var ks []knownFinding
	if err := json.Unmarshal(b, &ks); err != nil {
		fmt.Fprintln(os.Stderr, "known_findings.json:", err)
		os.Exit(2)
	}
	return ks
}

func matchKnown(ks []knownFinding, prop string, v *explore.Violation) *knownFinding {
	for i := range ks {
		k := &ks[i]
		if k.Status != "known" || k.Property != prop {
			continue
		}
		if k.Harness != "" && k.Harness != v.Scenario {
			continue
		}
		if k.Clause != "" && !strings.Contains(v.Message, k.Clause) {
			continue
		}
		if k.Match != "" && !strings.Contains(v.Config, k.Match) {
			continue
		}
		return k
	}
	return nil
}

type cfgRow struct {
	Config         json.RawMessage `json:"config"`
	States         int             `json:"states"`
	Transitions    int             `json:"transitions"`
	Executions     int             `json:"executions"`
	Outcomes       map[string]int  `json:"outcomes"`
	Observations   int             `json:"distinct_observations"`
	Exhaustive     bool            `json:"exhaustive"`
	Bound          int             `json:"preemption_bound"`
	CompletedBound int             `json:"completed_preemption_bound"`
	BoundRuns      []string        `json:"bounded_runs,omitempty"`
	BudgetHit      bool            `json:"budget_hit,omitempty"`
	MaxDepth       int             `json:"max_depth"`
	SCCs           int             `json:"sccs,omitempty"`
	BottomSCCs     int             `json:"bottom_cycles,omitempty"`
	Counters       map[string]int  `json:"counters,omitempty"`
	WallS          float64         `json:"wall_s"`
	Verdict        string          `json:"verdict"`
	Suspects       []string        `json:"suspected_merge_artefacts,omitempty"`
}

func seed() int {
	s, _ := strconv.Atoi(os.Getenv("VERIF_SEED"))
	return s
}

func check(prop, tier string) int {
	start := time.Now()
	var pureRes []pureResult
	if prop == "C13" || prop == "C14" || prop == "C18" || prop == "C15" {
		var err error
		pureRes, err = runPure(prop, tier)
		if err != nil {
			fmt.Fprintln(os.Stderr, "INFRA: pure engine:", err)
			return 2
		}
	}
	jobs := harness.Catalogue(prop, tier)
	if len(jobs) == 0 && len(pureRes) == 0 {
		fmt.Fprintf(os.Stderr, "no catalogue for %s %s\n", prop, tier)
		return 2
	}
	// VERIF_SEED only rotates the order in which jobs are started
	if s := seed(); s != 0 && len(jobs) > 1 {
		k := s % len(jobs)
		if k < 0 {
			k += len(jobs)
		}
		jobs = append(append([]harness.Cfg{}, jobs[k:]...), jobs[:k]...)
	}
	self, _ := os.Executable()
	par := runtime.NumCPU()
	if p, err := strconv.Atoi(os.Getenv("VERIF_PAR")); err == nil && p > 0 {
		par = p
	}
	type outT struct {
		cfg harness.Cfg
		res *explore.Result
	}
	results := make([]outT, len(jobs))
	var wg sync.WaitGroup
	sem := make(chan struct{}, par)
	for i, c := range jobs {
		wg.Add(1)
		go func(i int, c harness.Cfg) {
			defer wg.Done()
			sem <- struct{}{}
			defer func() { <-sem }()
			results[i] = outT{c, runJob(self, c)}
		}(i, c)
	}
	wg.Wait()

	known := loadKnown()
	rows := []cfgRow{}
	var samples []any
	tot := struct{ states, trans, execs, obs int }{}
	exhaustive := true
	exit := 0
	nviol := 0
	infra := []string{}
	counters := map[string]int{}
	for _, r := range results {
		res := r.res
		row := cfgRow{Config: json.RawMessage(r.cfg.String()), States: res.States, Transitions: res.Transitions, Executions: res.Executions,
			Outcomes: res.Outcomes, Observations: res.Observations, Exhaustive: res.Exhaustive, Bound: res.Bound, CompletedBound: res.CompletedBound, BoundRuns: res.BoundRuns, BudgetHit: res.BudgetHit,
			MaxDepth: res.MaxDepth, SCCs: res.SCCs, BottomSCCs: res.BottomSCCs, Counters: res.Counters, WallS: res.WallS, Verdict: "held", Suspects: res.Suspects}
		tot.states += res.States
		tot.trans += res.Transitions
		tot.execs += res.Executions
		tot.obs += res.Observations
		for k, v := range res.Counters {
			counters[k] += v
		}
		if !res.Exhaustive || res.Bound >= 0 {
			exhaustive = false // a preemption-bounded run is complete only within its bound
		}
		if res.InfraError != "" {
			row.Verdict = "infrastructure error: " + res.InfraError
			infra = append(infra, r.cfg.String()+": "+res.InfraError)
		}
		if v := res.Violation; v != nil {
			if k := matchKnown(known, prop, v); k != nil {
				row.Verdict = "known finding: " + k.What
				fmt.Printf("KNOWN-FINDING: property=%s %s\n", prop, k.What)
			} else {
				nviol++
				row.Verdict = "VIOLATION: " + v.Message
				p := explore.WriteReplay(filepath.Join(outDir, "replays"), prop, v)
				fmt.Printf("VIOLATION property=%s replay=%s\n", prop, p)
				fmt.Printf("  %s\n  config %s\n", v.Message, v.Config)
				exit = 1
			}
		}
		rows = append(rows, row)
		if len(samples) < 4 && len(res.SampleTrace) > 0 {
			samples = append(samples, map[string]any{"config": json.RawMessage(r.cfg.String()), "observations": res.ObsSamples, "trace": res.SampleTrace})
		} else if len(samples) < 8 && len(res.ObsSamples) > 0 {
			samples = append(samples, map[string]any{"config": json.RawMessage(r.cfg.String()), "observations": res.ObsSamples})
		}
	}
	// Engine B results
	var pureRows []any
	for _, pr := range pureRes {
		tot.states += int(pr.Inputs)
		tot.trans += int(pr.Evaluations)
		tot.execs += int(pr.Evaluations)
		tot.obs += len(pr.Classes)
		if !pr.Exhaustive {
			exhaustive = false
		}
		verdict := "held"
		seenKnown := map[string]bool{}
		for _, v := range pr.Violations {
			ev := &explore.Violation{Scenario: "pure", Config: v.Input, Message: v.Clause + " | " + v.Input + " -> " + v.Got}
			if k := matchKnown(known, prop, ev); k != nil {
				if !seenKnown[k.What] {
					fmt.Printf("KNOWN-FINDING: property=%s %s\n", prop, k.What)
					seenKnown[k.What] = true
				}
				continue
			}
			nviol++
			verdict = "VIOLATION"
			if exit == 0 || nviol <= 5 {
				os.MkdirAll(filepath.Join(outDir, "replays"), 0o755)
				p := filepath.Join(outDir, "replays", fmt.Sprintf("%s-pure-%d.json", prop, nviol))
				b, _ := json.MarshalIndent(map[string]any{"engine": "pure", "property": prop, "clause": v.Clause, "input": v.Input, "got": v.Got, "go_test": v.GoTest}, "", " ")
				os.WriteFile(p, b, 0o644)
				fmt.Printf("VIOLATION property=%s replay=%s\n  %s\n  input %s -> %s\n", prop, p, v.Clause, v.Input, v.Got)
			}
			exit = 1
		}
		pureRows = append(pureRows, map[string]any{"domain": pr.Domain, "inputs": pr.Inputs, "evaluations": pr.Evaluations, "result_classes": pr.Classes, "violating_inputs": pr.NViolations, "verdict": verdict, "wall_s": pr.WallS})
		for _, sm := range pr.Samples {
			if len(samples) < 12 {
				samples = append(samples, sm)
			}
		}
	}
	if len(infra) > 0 && exit == 0 {
		exit = 2
		for _, m := range infra {
			fmt.Fprintln(os.Stderr, "INFRA:", m)
		}
	}
	sort.SliceStable(rows, func(i, j int) bool { return string(rows[i].Config) < string(rows[j].Config) })
	if tot.states == 0 {
		tot.states = 1
	}
	if tot.trans == 0 {
		tot.trans = 1
	}
	ev := map[string]any{
		"property_id": prop,
		"tier":        tier,
		"seed":        seed(),
		"level":       "model_checking",
		"coverage": map[string]any{
			"states":                        tot.states,
			"transitions":                   tot.trans,
			"traces_validated_against_impl": tot.execs,
			"evaluations":                   tot.execs,
			"distinct_nontrivial":           tot.obs,
			"rule":                          harness.Rule(prop),
			"samples":                       samples,
			"exhaustive":                    exhaustive,
			"configurations":                len(rows),
			"monitor_event_counts":          counters,
			"per_configuration":             rows,
			"pure_function_domains":         pureRows,
			"explanation":                   "every explored trace is an execution of the implementation itself (the rewritten /repo sources on the virtual runtime), so traces_validated_against_impl equals the number of executions",
		},
		"assumptions": harness.Assumptions(prop),
		"wall_s":      time.Since(start).Seconds(),
		"violations":  nviol,
	}
	b, _ := json.MarshalIndent(ev, "", " ")
	os.MkdirAll(filepath.Join(outDir, "evidence"), 0o755)
	if err := os.WriteFile(filepath.Join(outDir, "evidence", prop+".json"), b, 0o644); err != nil {
		fmt.Fprintln(os.Stderr, err)
		return 2
	}
	fmt.Printf("%s %s: %d configurations, %d states, %d transitions, %d executions, %d distinct observations, exhaustive=%v, %.1fs, exit %d\n",
		prop, tier, len(rows), tot.states, tot.trans, tot.execs, tot.obs, exhaustive, time.Since(start).Seconds(), exit)
	return exit
}

func runJob(self string, c harness.Cfg) *explore.Result {
	cmd := exec.Command(self, "run", c.String())
	cmd.Env = append(os.Environ(), "GOMAXPROCS=2", "GOGC=200")
	raceLog := ""
	if vrt.RaceBuild {
		os.MkdirAll(filepath.Join(verifDir, ".build", "racelogs"), 0o755)
		f, _ := os.CreateTemp(filepath.Join(verifDir, ".build", "racelogs"), "race-*")
		raceLog = f.Name()
		f.Close()
		os.Remove(raceLog)
		cmd.Env = append(cmd.Env, "GORACE=exitcode=0 log_path="+raceLog)
		defer func() {
			ms, _ := filepath.Glob(raceLog + ".*")
			for _, m := range ms {
				os.Remove(m)
			}
		}()
	}
	var out, errb bytes.Buffer
	cmd.Stdout = &out
	cmd.Stderr = &errb
	limit := time.Duration(c.BudgetS)*time.Second*3 + 120*time.Second
	done := make(chan error, 1)
	if err := cmd.Start(); err != nil {
		return &explore.Result{InfraError: err.Error(), Outcomes: map[string]int{}}
	}
	go func() { done <- cmd.Wait() }()
	select {
	case err := <-done:
		if err != nil {
			msg := errb.String()
			if len(msg) > 600 {
				msg = msg[:600]
			}
			return &explore.Result{InfraError: "worker failed: " + err.Error() + ": " + msg, Outcomes: map[string]int{}}
		}
	case <-time.After(limit):
		cmd.Process.Kill()
		return &explore.Result{InfraError: "worker exceeded its hard time limit", Outcomes: map[string]int{}}
	}
	var res explore.Result
	lines := bytes.Split(bytes.TrimSpace(out.Bytes()), []byte("\n"))
	if err := json.Unmarshal(lines[len(lines)-1], &res); err != nil {
		return &explore.Result{InfraError: "worker output: " + err.Error(), Outcomes: map[string]int{}}
	}
	if raceLog != "" && res.Violation != nil {
		// attach the detector's report
		ms, _ := filepath.Glob(raceLog + ".*")
		for _, m := range ms {
			if b, err := os.ReadFile(m); err == nil {
				rep := strings.Split(string(b), "\n")
				if len(rep) > 70 {
					rep = rep[:70]
				}
				res.Violation.Trace = append(res.Violation.Trace, rep...)
				for _, l := range rep {
					if strings.Contains(l, "/repo/") {
						res.Violation.Message += " [" + strings.TrimSpace(l) + "]"
						break
					}
				}
			}
		}
	}
	return &res
}

func pure(prop, tier string) int { return check(prop, tier) }

type pureViolation struct {
	Clause string `json:"clause"`
	Input  string `json:"input"`
	Got    string `json:"got"`
	GoTest string `json:"go_test"`
}

type pureResult struct {
	Property    string           `json:"property"`
	Domain      string           `json:"domain"`
	Inputs      int64            `json:"inputs"`
	Evaluations int64            `json:"evaluations"`
	Classes     map[string]int64 `json:"result_classes"`
	Samples     []string         `json:"samples"`
	Violations  []pureViolation  `json:"violations"`
	NViolations int64            `json:"n_violations"`
	Exhaustive  bool             `json:"exhaustive"`
	WallS       float64          `json:"wall_s"`
}

func runPure(prop, tier string) ([]pureResult, error) {
	self, _ := os.Executable()
	bin := filepath.Join(filepath.Dir(self), "cqpure")
	cmd := exec.Command(bin, prop, tier)
	var out, errb bytes.Buffer
	cmd.Stdout = &out
	cmd.Stderr = &errb
	if err := cmd.Run(); err != nil {
		msg := errb.String()
		if len(msg) > 600 {
			msg = msg[:600]
		}
		return nil, fmt.Errorf("%v: %s", err, msg)
	}
	var res []pureResult
	lines := bytes.Split(bytes.TrimSpace(out.Bytes()), []byte("\n"))
	if err := json.Unmarshal(lines[len(lines)-1], &res); err != nil {
		return nil, err
	}
	return res, nil
}
