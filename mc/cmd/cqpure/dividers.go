package main

import (
	"fmt"
	"math/big"

	prio1 "github.com/akramarenkov/cqos/priority"
	div2 "github.com/akramarenkov/cqos/v2/priority/divider"
)

// C14: Fair and Rate dividers (v1 and v2) against exact arithmetic.

var pools = [][]uint{
	{8, 7, 6, 5, 4, 3, 2, 1},
	{100, 70, 20, 10, 5, 3, 2, 1},
	{1 << 40, 1<<32 - 1, 1 << 31, 1000000000, 1000000, 1000, 7, 1},
	// values p for which p*(1/p) != 1 in float64, and their halves' neighbours
	{107, 103, 100, 98, 51, 49, 47, 2},
	// priority 0 is a legal value: alone (the sum of the priorities is 0), and among others
	{1 << 63, 9, 4, 1, 0},
}

// subsets of a descending pool, as descending lists
func subsets(pool []uint) [][]uint {
	var out [][]uint
	for mask := 1; mask < 1<<uint(len(pool)); mask++ {
		var l []uint
		for i, p := range pool {
			if mask&(1<<uint(i)) != 0 {
				l = append(l, p)
			}
		}
		out = append(out, l)
	}
	return out
}

func dividends(quick bool, prios []uint) []uint {
	top := uint(8192)
	if quick {
		top = 512
	}
	var out []uint
	for d := uint(0); d <= top; d++ {
		out = append(out, d)
	}
	// lattice up to 2^32 restricted to products exactly representable in float64:
	// dividend * max priority < 2^53 and the sum of priorities < 2^53
	maxP := uint(0)
	for _, p := range prios {
		if p > maxP {
			maxP = p
		}
	}
	for k := uint(14); k <= 32; k++ {
		for _, d := range []uint{1<<k - 1, 1 << k, 1<<k + 1} {
			if d > 1<<32 {
				continue
			}
			if new(big.Int).Mul(big.NewInt(int64(d)), big.NewInt(int64(maxP))).BitLen() <= 53 {
				out = append(out, d)
			}
		}
	}
	return out
}

type initKind int

func initial(kind initKind, prios []uint) map[uint]uint {
	switch kind {
	case 0:
		return map[uint]uint{}
	case 1:
		m := map[uint]uint{}
		for _, p := range prios {
			m[p] = 7
		}
		return m
	case 2:
		return map[uint]uint{999999: 5}
	case 3:
		m := map[uint]uint{999999: 5}
		for i, p := range prios {
			if i%2 == 0 {
				m[p] = uint(i) + 1
			}
		}
		return m
	}
	return nil
}

func copyMap(m map[uint]uint) map[uint]uint {
	c := make(map[uint]uint, len(m))
	for k, v := range m {
		c[k] = v
	}
	return c
}

func checkDividers(quick bool) []*result {
	var all []*result
	for pi, pool := range pools {
		subs := subsets(pool)
		col := newCollector("C14", fmt.Sprintf("all %d non-empty descending sublists of pool %v x dividends 0..N plus the 2^k lattice up to 2^32 (exactly representable products only) x 4 initial distributions (empty, 7 on every listed key, 5 on an unlisted key, mixed) + nil for v1; Fair and Rate, v1 and v2", len(subs), pool))
		col.parallel(len(subs), func(i int, s *shard) {
			prios := subs[i]
			ds := dividends(quick, prios)
			for _, d := range ds {
				for kind := initKind(0); kind < 4; kind++ {
					s.inputs++
					checkDivider(s, "Fair", prios, d, kind)
					checkDivider(s, "Rate", prios, d, kind)
				}
			}
			if i == 10 && pi == 0 {
				s.sample(fmt.Sprintf("Rate(%v, %d, {})", prios, ds[len(ds)/2]))
			}
		})
		all = append(all, &col.res)
	}
	return all
}

func checkDivider(s *shard, name string, prios []uint, dividend uint, kind initKind) {
	s.evals++
	s.mark("divider "+name+" (v2 and v1), dividend, initial distribution kind", prios, uint64(dividend), uint64(kind), 0, 0)
	before := initial(kind, prios)
	d2 := copyMap(before)
	var v1res map[uint]uint
	switch name {
	case "Fair":
		div2.Fair(prios, dividend, d2)
		v1res = prio1.FairDivider(prios, dividend, copyMap(before))
	case "Rate":
		div2.Rate(prios, dividend, d2)
		v1res = prio1.RateDivider(prios, dividend, copyMap(before))
	}
	in := fmt.Sprintf("%s(%v, %d, %v)", name, prios, dividend, before)
	got := fmt.Sprint(d2)
	test := fmt.Sprintf("func TestDivider(t *testing.T) {\n\td := %#v\n\tdivider.%s(%#v, %d, d)\n\tt.Log(d) // violates C14\n}", before, name, prios, dividend)
	// v1 == v2
	if !equalMaps(d2, v1res) {
		s.fail("v1 and v2 produce different distributions", in, fmt.Sprintf("v2 %v, v1 %v", d2, v1res), test)
	}
	if kind == 0 {
		// v1 with nil creates the map
		var nilres map[uint]uint
		if name == "Fair" {
			nilres = prio1.FairDivider(prios, dividend, nil)
		} else {
			nilres = prio1.RateDivider(prios, dividend, nil)
		}
		if !equalMaps(d2, nilres) {
			s.fail("v1 with a nil distribution differs from v2 with an empty one", in, fmt.Sprintf("v2 %v, v1(nil) %v", d2, nilres), test)
		}
	}
	// sum of increments over listed keys == dividend, nothing else changed
	listed := map[uint]bool{}
	sum := new(big.Int)
	incs := make([]uint, len(prios))
	for i, p := range prios {
		listed[p] = true
		if d2[p] < before[p] {
			s.fail("an entry of a listed priority decreased", in, got, test)
			return
		}
		incs[i] = d2[p] - before[p]
		sum.Add(sum, new(big.Int).SetUint64(uint64(incs[i])))
	}
	if sum.Cmp(new(big.Int).SetUint64(uint64(dividend))) != 0 {
		s.class("SUM MISMATCH")
		s.fail(fmt.Sprintf("increments of the listed priorities sum to %v, not to the dividend", sum), in, got, test)
	}
	for k, v := range d2 {
		if !listed[k] && before[k] != v {
			s.fail("an entry of an unlisted priority changed", in, got, test)
		}
		if _, had := before[k]; !listed[k] && !had {
			s.fail("an entry for an unlisted priority appeared", in, got, test)
		}
	}
	for k := range before {
		if _, has := d2[k]; !has {
			s.fail("an entry disappeared", in, got, test)
		}
	}
	n := len(prios)
	for i := 1; i < n; i++ {
		if incs[i] > incs[i-1] {
			s.fail("increments are not non-increasing along the priority list", in, got, test)
			break
		}
	}
	switch name {
	case "Fair":
		if incs[0]-incs[n-1] > 1 {
			s.fail("Fair increments differ by more than one", in, got, test)
		}
		s.class("fair")
	case "Rate":
		// |inc_i - dividend*p_i/sum(p)| <= n/2   <=>   |2*inc_i*S - 2*dividend*p_i| <= n*S
		S := new(big.Int)
		for _, p := range prios {
			S.Add(S, new(big.Int).SetUint64(uint64(p)))
		}
		nS := new(big.Int).Mul(big.NewInt(int64(n)), S)
		for i, p := range prios {
			a := new(big.Int).Mul(new(big.Int).SetUint64(uint64(incs[i])), S)
			a.Lsh(a, 1)
			b := new(big.Int).Mul(new(big.Int).SetUint64(uint64(dividend)), new(big.Int).SetUint64(uint64(p)))
			b.Lsh(b, 1)
			diff := new(big.Int).Sub(a, b)
			diff.Abs(diff)
			if diff.Cmp(nS) > 0 {
				s.fail(fmt.Sprintf("Rate increment of priority %d deviates from the exact proportional share by more than n/2", p), in, got, test)
				break
			}
		}
		s.class("rate")
	}
}

func equalMaps(a, b map[uint]uint) bool {
	if len(a) != len(b) {
		return false
	}
	for k, v := range a {
		if w, ok := b[k]; !ok || w != v {
			return false
		}
	}
	return true
}
