package main

import (
	"errors"
	"fmt"
	"sort"
	"sync/atomic"
	"time"

	prio1 "github.com/akramarenkov/cqos/priority"
	prio2 "github.com/akramarenkov/cqos/v2/priority"
	div2 "github.com/akramarenkov/cqos/v2/priority/divider"
	utils2 "github.com/akramarenkov/cqos/v2/priority/utils"
)

// C18: IsNonFatalConfig / IsSuitableConfig / PickUp* (both versions) against
// their definitions by brute force, and "non-fatal => accepted by v2 New".

var utilPool = []uint{100, 70, 20, 10, 7, 5, 4, 3, 2, 1}

func prioritySets(quick bool) [][]uint {
	var out [][]uint
	maxSize := 6
	if quick {
		maxSize = 4
	}
	for mask := 1; mask < 1<<uint(len(utilPool)); mask++ {
		var l []uint
		for i, p := range utilPool {
			if mask&(1<<uint(i)) != 0 {
				l = append(l, p)
			}
		}
		if len(l) <= maxSize {
			out = append(out, l)
		}
	}
	// priority values at the top of the type, 2^63 or more apart
	u := uint(1) << 60
	for _, l := range [][]uint{{11 * u, u}, {11 * u, 2 * u, u}, {1<<64 - 1, 1}, {1 << 63, 5, 1}, {1<<64 - 1, 1 << 63, 1 << 62}, {15 * u, 7 * u, 3}, {0}, {1, 0}, {3, 2, 0}} {
		out = append(out, l)
	}
	// {1..6} and its subsets
	six := []uint{6, 5, 4, 3, 2, 1}
	for mask := 1; mask < 1<<6; mask++ {
		var l []uint
		for i, p := range six {
			if mask&(1<<uint(i)) != 0 {
				l = append(l, p)
			}
		}
		out = append(out, l)
	}
	return out
}

type dividerPair struct {
	name string
	v2   div2.Divider
	v1   prio1.Divider
}

var dividerPairs = []dividerPair{
	{"Fair", div2.Fair, prio1.FairDivider},
	{"Rate", div2.Rate, prio1.RateDivider},
}

// refNonFatal: every member of every non-empty subset (order preserved) gets
// at least one unit; an absent entry counts as zero.
func refNonFatal(prios []uint, d div2.Divider, q uint) bool {
	n := len(prios)
	for mask := 1; mask < 1<<uint(n); mask++ {
		var sub []uint
		for i, p := range prios {
			if mask&(1<<uint(i)) != 0 {
				sub = append(sub, p)
			}
		}
		dist := map[uint]uint{}
		d(sub, q, dist)
		for _, p := range sub {
			if dist[p] == 0 {
				return false
			}
		}
	}
	return true
}

func shuffled(prios []uint, k int) []uint {
	// the helpers sort a copy themselves: pass the priorities in another order
	// (k%3: descending as given, ascending, rotated so that the lowest is not last)
	out := append([]uint(nil), prios...)
	switch k % 3 {
	case 1:
		sort.Slice(out, func(i, j int) bool { return out[i] < out[j] })
	case 2:
		if len(out) > 1 {
			out = append(out[1:], out[0])
			if len(out) > 2 {
				out[0], out[len(out)-2] = out[len(out)-2], out[0]
			}
		}
	}
	return out
}

func checkUtils(quick bool) []*result {
	sets := prioritySets(quick)
	maxQ := uint(300)
	if quick {
		maxQ = 96
	}
	limits := []float64{0, 1, 5, 10, 25, 50, 99, 100}
	col := newCollector("C18", fmt.Sprintf("%d priority sets (all subsets of size <= %d of %v, all subsets of 6..1) x {Fair, Rate} x quantity 0..%d x limits %v, v1 and v2", len(sets), map[bool]int{true: 4, false: 6}[quick], utilPool, maxQ, limits))
	col.parallel(len(sets), func(i int, s *shard) {
		prios := sets[i]
		for _, dp := range dividerPairs {
			nonFatal := make([]bool, maxQ+1)
			for q := uint(0); q <= maxQ; q++ {
				s.inputs++
				s.evals++
				s.mark("IsNonFatalConfig/IsSuitableConfig with divider "+dp.name+", quantity", prios, uint64(q), 0, 0, 0)
				ref := refNonFatal(prios, dp.v2, q)
				nonFatal[q] = ref
				got2 := utils2.IsNonFatalConfig(shuffled(prios, i), dp.v2, q)
				got1 := prio1.IsNonFatalConfig(shuffled(prios, i+1), dp.v1, q)
				in := fmt.Sprintf("IsNonFatalConfig(%v, %s, %d)", prios, dp.name, q)
				test := fmt.Sprintf("func TestNonFatal(t *testing.T) {\n\tt.Log(utils.IsNonFatalConfig(%#v, divider.%s, %d)) // definition says %v\n}", prios, dp.name, q, ref)
				if got2 != ref {
					s.class("NONFATAL MISMATCH")
					s.fail(fmt.Sprintf("v2 IsNonFatalConfig = %v but by definition (every member of every subset gets >= 1) it is %v", got2, ref), in, fmt.Sprint(got2), test)
				}
				if got1 != ref {
					s.fail(fmt.Sprintf("v1 IsNonFatalConfig = %v but by definition it is %v", got1, ref), in, fmt.Sprint(got1), test)
				}
				if ref {
					s.class("non-fatal")
				} else {
					s.class("fatal")
				}
				// non-fatal => accepted by the v2 constructor
				if got2 && q > 0 {
					if err := tryNew(prios, dp.v2, q); err != nil && !errors.Is(err, errNeverEnds) {
						s.fail("judged non-fatal by IsNonFatalConfig but rejected by the v2 constructor: "+err.Error(), in, "New error", test)
					}
				}
				// suitable => non-fatal, monotone in the limit
				prev := false
				for _, l := range limits {
					s.evals++
					su2 := utils2.IsSuitableConfig(shuffled(prios, i+1), dp.v2, q, l)
					su1 := prio1.IsSuitableConfig(shuffled(prios, i), dp.v1, q, l)
					if su2 != su1 {
						s.fail("v1 and v2 IsSuitableConfig differ", fmt.Sprintf("IsSuitableConfig(%v, %s, %d, %v)", prios, dp.name, q, l), fmt.Sprintf("v2 %v v1 %v", su2, su1), "")
					}
					if su2 && !ref {
						s.fail("IsSuitableConfig holds for a configuration that is fatal by definition", fmt.Sprintf("IsSuitableConfig(%v, %s, %d, %v)", prios, dp.name, q, l), "true", "")
					}
					if prev && !su2 {
						s.fail("IsSuitableConfig is not monotone in its limit", fmt.Sprintf("IsSuitableConfig(%v, %s, %d, %v)", prios, dp.name, q, l), "false after true", "")
					}
					prev = su2
				}
			}
			// PickUp*: scan of the reference predicate / of the function's own predicate
			for _, max := range []uint{0, 1, 2, 3, 7, maxQ / 2, maxQ} {
				s.evals++
				s.mark("PickUp{Min,Max}{NonFatal,Suitable}Quantity with divider "+dp.name+", maximum quantity", prios, uint64(max), 0, 0, 0)
				minRef, maxRef := uint(0), uint(0)
				for q := uint(1); q <= max; q++ {
					if nonFatal[q] {
						if minRef == 0 {
							minRef = q
						}
						maxRef = q
					}
				}
				if g := utils2.PickUpMinNonFatalQuantity(shuffled(prios, i+1), dp.v2, max); g != minRef {
					s.fail(fmt.Sprintf("PickUpMinNonFatalQuantity = %d, smallest non-fatal quantity in [1,%d] by definition is %d", g, max, minRef), fmt.Sprintf("PickUpMinNonFatalQuantity(%v, %s, %d)", prios, dp.name, max), fmt.Sprint(g), "")
				}
				if g := utils2.PickUpMaxNonFatalQuantity(shuffled(prios, i+1), dp.v2, max); g != maxRef {
					s.fail(fmt.Sprintf("PickUpMaxNonFatalQuantity = %d, largest non-fatal quantity in [1,%d] by definition is %d", g, max, maxRef), fmt.Sprintf("PickUpMaxNonFatalQuantity(%v, %s, %d)", prios, dp.name, max), fmt.Sprint(g), "")
				}
				if g := prio1.PickUpMinNonFatalQuantity(shuffled(prios, i+1), dp.v1, max); g != minRef {
					s.fail(fmt.Sprintf("v1 PickUpMinNonFatalQuantity = %d, by definition %d", g, minRef), fmt.Sprintf("PickUpMinNonFatalQuantity(%v, %s, %d)", prios, dp.name, max), fmt.Sprint(g), "")
				}
				if g := prio1.PickUpMaxNonFatalQuantity(shuffled(prios, i+1), dp.v1, max); g != maxRef {
					s.fail(fmt.Sprintf("v1 PickUpMaxNonFatalQuantity = %d, by definition %d", g, maxRef), fmt.Sprintf("PickUpMaxNonFatalQuantity(%v, %s, %d)", prios, dp.name, max), fmt.Sprint(g), "")
				}
				for _, l := range []float64{5, 25, 100} {
					s.mark("PickUp{Min,Max}SuitableQuantity with divider "+dp.name+", maximum quantity, limit", prios, uint64(max), 0, 0, l)
					smin, smax := uint(0), uint(0)
					for q := uint(1); q <= max; q++ {
						if utils2.IsSuitableConfig(shuffled(prios, i+1), dp.v2, q, l) {
							if smin == 0 {
								smin = q
							}
							smax = q
						}
					}
					if g := utils2.PickUpMinSuitableQuantity(shuffled(prios, i+1), dp.v2, max, l); g != smin {
						s.fail(fmt.Sprintf("PickUpMinSuitableQuantity = %d, scan of IsSuitableConfig gives %d", g, smin), fmt.Sprintf("PickUpMinSuitableQuantity(%v, %s, %d, %v)", prios, dp.name, max, l), fmt.Sprint(g), "")
					}
					if g := utils2.PickUpMaxSuitableQuantity(shuffled(prios, i+1), dp.v2, max, l); g != smax {
						s.fail(fmt.Sprintf("PickUpMaxSuitableQuantity = %d, scan of IsSuitableConfig gives %d", g, smax), fmt.Sprintf("PickUpMaxSuitableQuantity(%v, %s, %d, %v)", prios, dp.name, max, l), fmt.Sprint(g), "")
					}
					if g := prio1.PickUpMinSuitableQuantity(shuffled(prios, i), dp.v1, max, l); g != smin {
						s.fail(fmt.Sprintf("v1 PickUpMinSuitableQuantity = %d, scan gives %d", g, smin), fmt.Sprintf("PickUpMinSuitableQuantity(%v, %s, %d, %v)", prios, dp.name, max, l), fmt.Sprint(g), "")
					}
					if g := prio1.PickUpMaxSuitableQuantity(shuffled(prios, i), dp.v1, max, l); g != smax {
						s.fail(fmt.Sprintf("v1 PickUpMaxSuitableQuantity = %d, scan gives %d", g, smax), fmt.Sprintf("PickUpMaxSuitableQuantity(%v, %s, %d, %v)", prios, dp.name, max, l), fmt.Sprint(g), "")
					}
				}
			}
		}
		if i == 100 {
			s.sample(fmt.Sprintf("IsNonFatalConfig(%v, Rate, 0..%d)", prios, maxQ))
		}
	})
	return []*result{&col.res}
}

// tryNew creates a real v2 discipline over closed inputs (it ends at once).
func tryNew(prios []uint, d div2.Divider, q uint) error {
	inputs := map[uint]<-chan int{}
	for _, p := range prios {
		ch := make(chan int)
		close(ch)
		inputs[p] = ch
	}
	dsc, err := prio2.New(prio2.Opts[int]{Divider: d, HandlersQuantity: q, Inputs: inputs})
	if err != nil {
		return err
	}
	// every input is closed and empty, so the discipline must end at once; a
	// discipline that does not is abandoned (it polls forever) and reported
	if hangs.Load() >= 3 {
		return nil
	}
	done := make(chan struct{})
	go func() {
		for range dsc.Output() {
		}
		close(done)
	}()
	select {
	case <-done:
		return nil
	case <-time.After(3 * time.Second):
		hangs.Add(1)
		return errNeverEnds
	}
}

var hangs atomic.Int32

var errNeverEnds = errors.New("accepted, but the discipline never terminates although all inputs are closed and empty")

// C15 (constructor part): for every (priorities, quantity) and Fair / Rate /
// custom dividers, including ones that omit keys or misbehave at call 1:
//
//	fault at creation                       => ErrDividerBad
//	some configured priority's share zero   => an error
//	otherwise                               => accepted
func checkNew(quick bool) []*result {
	sets := prioritySets(quick)
	maxQ := uint(96)
	if quick {
		maxQ = 40
	}
	type cd struct {
		name  string
		d     div2.Divider
		fault bool
	}
	lowOmit := func(priorities []uint, dividend uint, distribution map[uint]uint) {
		// gives everything to the highest priority and omits the other keys
		if len(priorities) == 0 {
			return
		}
		distribution[priorities[0]] += dividend
	}
	over := func(priorities []uint, dividend uint, distribution map[uint]uint) {
		div2.Fair(priorities, dividend, distribution)
		if len(priorities) > 0 {
			distribution[priorities[0]]++
		}
	}
	under := func(priorities []uint, dividend uint, distribution map[uint]uint) {
		div2.Fair(priorities, dividend, distribution)
		for _, p := range priorities {
			if distribution[p] > 0 {
				distribution[p]--
				return
			}
		}
	}
	foreign := func(priorities []uint, dividend uint, distribution map[uint]uint) {
		// correct among the listed priorities, one more unit under a key that is not listed
		div2.Fair(priorities, dividend, distribution)
		if len(priorities) > 0 {
			distribution[priorities[0]+1]++
		}
	}
	divs := []cd{{"Fair", div2.Fair, false}, {"Rate", div2.Rate, false}, {"omitting", lowOmit, false}, {"over-allocating", over, true}, {"under-allocating", under, true}, {"over-allocating under an unlisted key", foreign, true}}
	col := newCollector("C15", fmt.Sprintf("v2 priority.New over %d priority sets x quantity 1..%d x dividers {Fair, Rate, key-omitting, over-allocating, under-allocating, over-allocating under an unlisted key}", len(sets), maxQ))
	col.parallel(len(sets), func(i int, s *shard) {
		prios := sets[i]
		for _, dv := range divs {
			for q := uint(1); q <= maxQ; q++ {
				s.inputs++
				s.evals++
				err := tryNew(prios, dv.d, q)
				in := fmt.Sprintf("priority.New(priorities %v, %s divider, HandlersQuantity %d)", prios, dv.name, q)
				share := map[uint]uint{}
				dv.d(prios, q, share)
				total := uint(0)
				for _, v := range share {
					total += v
				}
				zero := false
				for _, p := range prios {
					if share[p] == 0 {
						zero = true
					}
				}
				switch {
				case dv.fault && total != 0 && total != q:
					s.class("fault at creation")
					if !errors.Is(err, prio2.ErrDividerBad) {
						s.fail("the divider's added total differs from the dividend at creation but New did not return ErrDividerBad", in, fmt.Sprint(err), "")
					}
				case zero:
					s.class("zero share")
					if err == nil || errors.Is(err, errNeverEnds) {
						s.fail(fmt.Sprintf("New accepted a configuration in which a configured priority has share zero (shares %v)", share), in, "nil error",
							fmt.Sprintf("func TestNew(t *testing.T) {\n\t// shares %v: a configured priority gets nothing, New must reject\n}", share))
					}
				default:
					s.class("accepted")
					if err != nil {
						s.fail("New rejected a configuration in which every configured priority has a positive share and the divider is sum-preserving", in, err.Error(), "")
					}
				}
			}
		}
		if i == 50 {
			s.sample(fmt.Sprintf("priority.New(%v, Rate, 1..%d)", prios, maxQ))
		}
	})
	return []*result{&col.res}
}
