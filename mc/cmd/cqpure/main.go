// cqpure: Engine B — bounded-exhaustive enumeration of the pure functions of
// cqos (Rate conversion, dividers, handler-quantity helpers, constructor
// acceptance) against independent reference models. Built WITHOUT the overlay:
// it calls the real exported functions of /repo natively.
//
//	cqpure <C13|C14|C15|C18> <quick|thorough>   prints one JSON result
package main

import (
	"encoding/json"
	"fmt"
	"os"
	"runtime"
	"sort"
	"sync"
	"time"
)

type violation struct {
	Clause string `json:"clause"`
	Input  string `json:"input"`
	Got    string `json:"got"`
	GoTest string `json:"go_test,omitempty"`
}

type result struct {
	Property    string           `json:"property"`
	Domain      string           `json:"domain"`
	Inputs      int64            `json:"inputs"`
	Evaluations int64            `json:"evaluations"`
	Classes     map[string]int64 `json:"result_classes"`
	Samples     []string         `json:"samples"`
	Violations  []violation      `json:"violations,omitempty"`
	NViolations int64            `json:"n_violations"`
	Exhaustive  bool             `json:"exhaustive"`
	WallS       float64          `json:"wall_s"`
}

// collector is shared by the shards of one enumeration.
type collector struct {
	mu      sync.Mutex
	res     result
	maxViol int
}

func newCollector(prop, domain string) *collector {
	return &collector{res: result{Property: prop, Domain: domain, Classes: map[string]int64{}, Exhaustive: true}, maxViol: 40}
}

type shard struct {
	inputs, evals int64
	classes       map[string]int64
	samples       []string
	viol          []violation
	nviol         int64
}

func newShard() *shard { return &shard{classes: map[string]int64{}} }

func (s *shard) class(c string) { s.classes[c]++ }

func (s *shard) sample(x string) {
	if len(s.samples) < 3 {
		s.samples = append(s.samples, x)
	}
}

func (s *shard) fail(clause, input, got, gotest string) {
	s.nviol++
	if len(s.viol) < 10 {
		s.viol = append(s.viol, violation{clause, input, got, gotest})
	}
}

func (c *collector) merge(s *shard) {
	c.mu.Lock()
	defer c.mu.Unlock()
	c.res.Inputs += s.inputs
	c.res.Evaluations += s.evals
	for k, v := range s.classes {
		c.res.Classes[k] += v
	}
	if len(c.res.Samples) < 8 {
		c.res.Samples = append(c.res.Samples, s.samples...)
	}
	c.res.NViolations += s.nviol
	for _, v := range s.viol {
		if len(c.res.Violations) < c.maxViol {
			c.res.Violations = append(c.res.Violations, v)
		}
	}
}

// parallel runs f(i) for i in [0,n) on all cores, one shard per call.
func (c *collector) parallel(n int, f func(i int, s *shard)) {
	var wg sync.WaitGroup
	sem := make(chan struct{}, runtime.NumCPU())
	for i := 0; i < n; i++ {
		wg.Add(1)
		sem <- struct{}{}
		go func(i int) {
			defer wg.Done()
			defer func() { <-sem }()
			s := newShard()
			f(i, s)
			c.merge(s)
		}(i)
	}
	wg.Wait()
}

func main() {
	if len(os.Args) < 3 {
		fmt.Fprintln(os.Stderr, "usage: cqpure <property> <tier>")
		os.Exit(2)
	}
	prop, tier := os.Args[1], os.Args[2]
	quick := tier != "thorough"
	start := time.Now()
	var results []*result
	switch prop {
	case "C13":
		results = checkRate(quick)
	case "C14":
		results = checkDividers(quick)
	case "C18":
		results = checkUtils(quick)
	case "C15":
		results = checkNew(quick)
	default:
		fmt.Fprintln(os.Stderr, "unknown property", prop)
		os.Exit(2)
	}
	for _, r := range results {
		sort.Slice(r.Violations, func(i, j int) bool { return r.Violations[i].Input < r.Violations[j].Input })
		r.WallS = time.Since(start).Seconds()
	}
	b, _ := json.Marshal(results)
	fmt.Println(string(b))
}
