// cqpure: Engine B — bounded-exhaustive enumeration of the pure functions of
// cqos (Rate conversion, dividers, handler-quantity helpers, constructor
// acceptance) against independent reference models. Built WITHOUT the overlay:
// it calls the real exported functions of /repo natively.
//
//	cqpure <C13|C14|C15|C18> <quick|thorough>   prints one JSON result
package main

import (
	"encoding/json"
	"fmt"
	"os"
	"runtime"
	"sort"
	"sync"
	"sync/atomic"
	"time"
)

type violation struct {
	Clause string `json:"clause"`
	Input  string `json:"input"`
	Got    string `json:"got"`
	GoTest string `json:"go_test,omitempty"`
}

type result struct {
	Property    string           `json:"property"`
	Domain      string           `json:"domain"`
	Inputs      int64            `json:"inputs"`
	Evaluations int64            `json:"evaluations"`
	Classes     map[string]int64 `json:"result_classes"`
	Samples     []string         `json:"samples"`
	Violations  []violation      `json:"violations,omitempty"`
	NViolations int64            `json:"n_violations"`
	Exhaustive  bool             `json:"exhaustive"`
	WallS       float64          `json:"wall_s"`
}

// collector is shared by the shards of one enumeration.
type collector struct {
	mu      sync.Mutex
	res     result
	maxViol int
}

func newCollector(prop, domain string) *collector {
	return &collector{res: result{Property: prop, Domain: domain, Classes: map[string]int64{}, Exhaustive: true}, maxViol: 40}
}

type shard struct {
	inputs, evals int64
	classes       map[string]int64
	samples       []string
	viol          []violation
	nviol         int64

	// the library call in progress (formatted only when it panics or hangs)
	curFn    string
	curPrios []uint
	curArgs  [3]uint64
	curF     float64
	tick     atomic.Int64 // unix nanoseconds of the last mark
	finished atomic.Bool  // set by whoever accounts for the shard: its worker, or the watchdog
}

func newShard() *shard {
	s := &shard{classes: map[string]int64{}}
	s.tick.Store(time.Now().UnixNano())
	return s
}

// mark records which library call is about to be made.
func (s *shard) mark(fn string, prios []uint, a, b, c uint64, f float64) {
	s.curFn, s.curPrios, s.curArgs, s.curF = fn, prios, [3]uint64{a, b, c}, f
	s.tick.Store(time.Now().UnixNano())
}

func (s *shard) cur() string {
	if s.curPrios != nil {
		return fmt.Sprintf("%s(priorities %v, %d, %d, %v)", s.curFn, s.curPrios, s.curArgs[0], s.curArgs[1], s.curF)
	}
	return fmt.Sprintf("%s(%d, %d, %d)", s.curFn, int64(s.curArgs[0]), s.curArgs[1], int64(s.curArgs[2]))
}

// hangLimit: a library call that normally takes microseconds and has not
// returned after this long is reported as not terminating.
const hangLimit = 60 * time.Second

func (s *shard) class(c string) { s.classes[c]++ }

func (s *shard) sample(x string) {
	if len(s.samples) < 3 {
		s.samples = append(s.samples, x)
	}
}

func (s *shard) fail(clause, input, got, gotest string) {
	s.nviol++
	if len(s.viol) < 10 {
		s.viol = append(s.viol, violation{clause, input, got, gotest})
	}
}

func (c *collector) merge(s *shard) {
	c.mu.Lock()
	defer c.mu.Unlock()
	c.res.Inputs += s.inputs
	c.res.Evaluations += s.evals
	for k, v := range s.classes {
		c.res.Classes[k] += v
	}
	if len(c.res.Samples) < 8 {
		c.res.Samples = append(c.res.Samples, s.samples...)
	}
	c.res.NViolations += s.nviol
	for _, v := range s.viol {
		if len(c.res.Violations) < c.maxViol {
			c.res.Violations = append(c.res.Violations, v)
		}
	}
}

// parallel runs f(i) for i in [0,n) on all cores, one shard per call. A panic
// of the library is a violation for the input being evaluated, and so is a call
// that does not return (a watchdog abandons the shard after hangLimit).
func (c *collector) parallel(n int, f func(i int, s *shard)) {
	var wg sync.WaitGroup
	sem := make(chan struct{}, runtime.NumCPU())
	var mu sync.Mutex
	var aborted atomic.Bool
	active := map[*shard]bool{}
	stop := make(chan struct{})
	account := func(s *shard) {
		// exactly once per shard
		if s.finished.CompareAndSwap(false, true) {
			mu.Lock()
			delete(active, s)
			mu.Unlock()
			c.merge(s)
			<-sem
			wg.Done()
		}
	}
	go func() {
		t := time.NewTicker(time.Second)
		defer t.Stop()
		for {
			select {
			case <-stop:
				return
			case <-t.C:
			}
			now := time.Now().UnixNano()
			mu.Lock()
			var stuck []*shard
			for s := range active {
				if now-s.tick.Load() > int64(hangLimit) {
					stuck = append(stuck, s)
				}
			}
			mu.Unlock()
			for _, s := range stuck {
				// the worker is inside the library and never comes back: report for it
				h := newShard()
				h.inputs, h.evals = s.inputs, s.evals
				h.class("DOES NOT RETURN")
				h.fail(fmt.Sprintf("the call has not returned after %v (it normally takes microseconds)", hangLimit), s.cur(), "no result", "")
				if s.finished.CompareAndSwap(false, true) {
					mu.Lock()
					delete(active, s)
					mu.Unlock()
					c.merge(h)
					c.mu.Lock()
					c.res.Exhaustive = false
					c.mu.Unlock()
					aborted.Store(true) // one non-terminating call decides; the remaining shards are not started
					<-sem
					wg.Done()
				}
			}
		}
	}()
	for i := 0; i < n && !aborted.Load(); i++ {
		wg.Add(1)
		sem <- struct{}{}
		s := newShard()
		mu.Lock()
		active[s] = true
		mu.Unlock()
		go func(i int) {
			defer account(s)
			defer func() {
				if r := recover(); r != nil && !s.finished.Load() {
					s.class("PANIC")
					s.fail(fmt.Sprintf("the call panicked: %v", r), s.cur(), "panic", "")
				}
			}()
			f(i, s)
		}(i)
	}
	wg.Wait()
	close(stop)
}

func main() {
	if len(os.Args) < 3 {
		fmt.Fprintln(os.Stderr, "usage: cqpure <property> <tier>")
		os.Exit(2)
	}
	prop, tier := os.Args[1], os.Args[2]
	quick := tier != "thorough"
	start := time.Now()
	var results []*result
	switch prop {
	case "C13":
		results = checkRate(quick)
	case "C14":
		results = checkDividers(quick)
	case "C18":
		results = checkUtils(quick)
	case "C15":
		results = checkNew(quick)
	default:
		fmt.Fprintln(os.Stderr, "unknown property", prop)
		os.Exit(2)
	}
	for _, r := range results {
		sort.Slice(r.Violations, func(i, j int) bool { return r.Violations[i].Input < r.Violations[j].Input })
		r.WallS = time.Since(start).Seconds()
	}
	b, _ := json.Marshal(results)
	fmt.Println(string(b))
}
