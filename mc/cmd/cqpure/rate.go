package main

import (
	"fmt"
	"math"
	"math/big"
	"time"

	"github.com/akramarenkov/cqos/v2/limit"
)

// C13: Rate.Recalculate / Optimize / Flatten against a math/big reference.

var maxU64 = new(big.Int).SetUint64(math.MaxUint64)

func bigI(x int64) *big.Int  { return new(big.Int).SetInt64(x) }
func bigU(x uint64) *big.Int { return new(big.Int).SetUint64(x) }

// checkOne evaluates the statement of C13 for one input.
func checkOne(s *shard, I int64, Q uint64, min int64, fn string) {
	s.evals++
	s.mark("Rate{Interval,Quantity}."+fn+": Interval, Quantity, minimum = ", nil, uint64(I), Q, uint64(min), 0)
	rt := limit.Rate{Interval: time.Duration(I), Quantity: Q}
	var got limit.Rate
	var err error
	switch fn {
	case "Recalculate":
		got, err = rt.Recalculate(time.Duration(min))
	case "Optimize":
		got, err = rt.Optimize()
	case "Flatten":
		got, err = rt.Flatten()
	}
	in := fmt.Sprintf("Rate{Interval:%d, Quantity:%d}.%s(%d)", I, Q, fn, min)
	gotS := fmt.Sprintf("Rate{Interval:%d, Quantity:%d}, err=%v", int64(got.Interval), got.Quantity, err)
	test := func() string {
		call := fmt.Sprintf("Recalculate(%d)", min)
		if fn != "Recalculate" {
			call = fn + "()"
		}
		return fmt.Sprintf("func TestRate(t *testing.T) {\n\tgot, err := limit.Rate{Interval: %d, Quantity: %d}.%s\n\tt.Logf(\"%%+v %%v\", got, err) // violates C13: see clause\n\tif err == nil && (got.Quantity == 0 || got.Interval <= 0) { t.Fatal(\"invalid rate without error\") }\n}", I, Q, call)
	}
	invalid := I <= 0 || Q == 0
	// reasons that permit an error
	reason := ""
	switch {
	case invalid:
		reason = "invalid rate"
	case min < 0:
		reason = "negative minimum"
	default:
		// floor(I/Q) > min: no error
		fl := new(big.Int).Quo(bigI(I), bigU(Q))
		if fl.Cmp(bigI(min)) > 0 {
			reason = ""
		} else if min == 0 {
			reason = "converted interval zero"
		} else {
			q := new(big.Int).Quo(new(big.Int).Mul(bigU(Q), bigI(min)), bigI(I))
			if q.Cmp(maxU64) > 0 {
				reason = "converted quantity unrepresentable"
			}
		}
	}
	if err != nil {
		s.class("error: " + errClass(reason))
		if got != (limit.Rate{}) {
			s.fail("error together with a non-zero Rate", in, gotS, test())
		}
		if reason == "" {
			s.fail("error although the rate is valid, the minimum non-negative, the converted interval non-zero and the converted quantity representable", in, gotS, test())
		}
		return
	}
	if reason != "" {
		s.fail("no error although: "+reason, in, gotS, test())
		return
	}
	// success: valid, Interval >= minimum, Quantity 1 unless Interval == minimum, speed within rounding
	Ip, Qp := int64(got.Interval), got.Quantity
	if Ip <= 0 || Qp == 0 {
		s.class("INVALID RESULT")
		s.fail("returned Rate is not valid (Interval > 0 and Quantity > 0 required)", in, gotS, test())
		return
	}
	if Ip < min {
		s.fail("returned Interval is smaller than the minimum", in, gotS, test())
	}
	if Qp != 1 && Ip != min {
		s.fail("Quantity is not 1 although Interval differs from the minimum", in, gotS, test())
	}
	// faster by less than one nanosecond of its interval: Q'*I < (I'+1)*Q
	l1 := new(big.Int).Mul(bigU(Qp), bigI(I))
	r1 := new(big.Int).Mul(new(big.Int).Add(bigI(Ip), big.NewInt(1)), bigU(Q))
	if l1.Cmp(r1) >= 0 {
		s.fail("result is slower than the original by at least one element per interval or mis-scaled (Q'*I < (I'+1)*Q violated)", in, gotS, test())
	}
	// slower by less than one element per interval: (Q'+1)*I > Q*I'
	l2 := new(big.Int).Mul(new(big.Int).Add(bigU(Qp), big.NewInt(1)), bigI(I))
	r2 := new(big.Int).Mul(bigU(Q), bigI(Ip))
	if l2.Cmp(r2) <= 0 {
		s.fail("result is slower than the original by one element per interval or more ((Q'+1)*I > Q*I' violated)", in, gotS, test())
	}
	if Qp == 1 {
		s.class("ok: quantity 1")
	} else {
		s.class("ok: interval = minimum")
	}
}

func errClass(reason string) string {
	if reason == "" {
		return "UNJUSTIFIED"
	}
	return reason
}

func lattice64(quick bool) []int64 {
	set := map[int64]bool{}
	step := 1
	if quick {
		step = 3
	}
	for k := 0; k <= 62; k += step {
		v := int64(1) << uint(k)
		for _, d := range []int64{-1, 0, 1} {
			set[v+d] = true
		}
	}
	p := int64(1)
	for k := 0; k < 19; k++ {
		if !quick || k%3 == 0 {
			set[p] = true
			set[p+1] = true
			set[p-1] = true
		}
		p *= 10
	}
	// values around the places where products with the optimisation interval wrap
	for _, v := range []int64{1844674407370, 1844674407371, 922337203685, 922337203686, 18446744073, 18446744074,
		int64(time.Hour), int64(24 * time.Hour), int64(time.Minute), 1 << 32, 1<<32 + 1, 1<<32 - 1, 3037000499, 3037000500} {
		set[v] = true
	}
	ms := int64(10 * time.Millisecond)
	for _, v := range []int64{ms - 1, ms, ms + 1, 2 * ms, 2*ms + 1, 2*ms - 1, math.MaxInt64, math.MaxInt64 - 1, int64(time.Second), int64(time.Hour)} {
		set[v] = true
	}
	var out []int64
	for v := range set {
		if v >= 0 {
			out = append(out, v)
		}
	}
	sortI64(out)
	return out
}

func sortI64(a []int64) {
	for i := 1; i < len(a); i++ {
		for j := i; j > 0 && a[j] < a[j-1]; j-- {
			a[j], a[j-1] = a[j-1], a[j]
		}
	}
}

func checkRate(quick bool) []*result {
	N := 320
	if quick {
		N = 96
	}
	lat := lattice64(quick)
	// quantities additionally reach the top of uint64
	var latQ []uint64
	for _, v := range lat {
		latQ = append(latQ, uint64(v))
	}
	latQ = append(latQ, math.MaxUint64, math.MaxUint64-1, uint64(1)<<63, uint64(1)<<63+1)
	mins := append([]int64{-1, math.MinInt64}, lat...)
	ints := append([]int64{-1, math.MinInt64}, lat...)

	dense := newCollector("C13", fmt.Sprintf("dense box: Interval 0..%d x Quantity 0..%d x minimum -1..%d, Recalculate; plus Optimize and Flatten for every (Interval, Quantity) of the box and of the lattice", N, N, N))
	dense.parallel(N+1, func(i int, s *shard) {
		I := int64(i)
		for q := 0; q <= N; q++ {
			for m := -1; m <= N; m++ {
				s.inputs++
				checkOne(s, I, uint64(q), int64(m), "Recalculate")
			}
			s.inputs++
			checkOne(s, I, uint64(q), int64(limit.OptimizationInterval), "Optimize")
			checkOne(s, I, uint64(q), 0, "Flatten")
			// near the optimisation interval
			for _, d := range []int64{-1, 0, 1} {
				s.inputs++
				checkOne(s, int64(limit.OptimizationInterval)*int64(q)+d+I, uint64(q), int64(limit.OptimizationInterval), "Optimize")
			}
		}
		if i == 41 {
			s.sample("Rate{41,2}.Recalculate(20)")
		}
	})
	latc := newCollector("C13", fmt.Sprintf("boundary lattice {2^k-1,2^k,2^k+1, 10^k-1..10^k+1, 10ms±1, 20ms±1, MaxInt64, MaxUint64, ...}: %d intervals x %d quantities x %d minimums, Recalculate; Optimize/Flatten on the (Interval, Quantity) lattice", len(ints), len(latQ), len(mins)))
	latc.parallel(len(ints), func(i int, s *shard) {
		I := ints[i]
		for _, q := range latQ {
			for _, m := range mins {
				s.inputs++
				checkOne(s, I, q, m, "Recalculate")
			}
			s.inputs++
			checkOne(s, I, q, int64(limit.OptimizationInterval), "Optimize")
			checkOne(s, I, q, 0, "Flatten")
		}
		if i == 5 {
			s.sample(fmt.Sprintf("Rate{%d,%d}.Recalculate(%d)", I, latQ[len(latQ)/2], mins[len(mins)/2]))
		}
	})
	return []*result{&dense.res, &latc.res}
}
