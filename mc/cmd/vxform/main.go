// vxform rewrites Go packages so that every channel operation, select, go
// statement and use of the time, sync and context packages goes through the
// virtual runtime cqosverif/vrt. It is a mechanical, total source rewrite driven
// by go/types; the result is fed to `go build -overlay`.
//
// usage: vxform -out DIR -overlay FILE [-copy SRC=DST]... PKGDIR...
//
//	PKGDIR   directory of a package to rewrite in place through the overlay
//	-copy    directory tree of a dependency to be copied to DST with all of its
//	         packages rewritten (used for github.com/akramarenkov/breaker)
package main

import (
	"bytes"
	"crypto/sha256"
	"encoding/json"
	"flag"
	"fmt"
	"go/ast"
	"go/format"
	"go/importer"
	"go/parser"
	"go/token"
	"go/types"
	"os"
	"path/filepath"
	"reflect"
	"sort"
	"strconv"
	"strings"
)

const (
	vrtPath  = "cqosverif/vrt"
	vrtName  = "vrt__"
	timePath = "cqosverif/vrt/vtime"
	syncPath = "cqosverif/vrt/vsync"
	ctxPath  = "cqosverif/vrt/vcontext"
	atomPath = "cqosverif/vrt/vatomic"
)

type multi []string

func (m *multi) String() string     { return strings.Join(*m, ",") }
func (m *multi) Set(s string) error { *m = append(*m, s); return nil }

func fatalf(format string, args ...any) {
	fmt.Fprintf(os.Stderr, "vxform: "+format+"\n", args...)
	os.Exit(2)
}

var fset = token.NewFileSet()
var imp types.Importer

func main() {
	out := flag.String("out", "", "output directory for rewritten files")
	overlay := flag.String("overlay", "", "overlay JSON to write")
	var copies multi
	flag.Var(&copies, "copy", "SRC=DST: copy a module tree, rewriting its packages")
	plainOut := flag.String("plain", "", "second overlay JSON with only plain file mappings (for native builds)")
	remap := flag.String("map", "", "FROM=TO: the package directories live under FROM (a scratch copy of the repository) but the overlay must replace the files of TO; differing files outside the rewritten packages are mapped too")
	flag.Parse()
	if *out == "" || *overlay == "" {
		fatalf("-out and -overlay are required")
	}
	imp = importer.ForCompiler(fset, "source", nil)
	replace := map[string]string{}
	mapFrom, mapTo := "", ""
	if *remap != "" {
		parts := strings.SplitN(*remap, "=", 2)
		if len(parts) != 2 {
			fatalf("bad -map %q", *remap)
		}
		mapFrom, mapTo = filepath.Clean(parts[0]), filepath.Clean(parts[1])
	}
	key := func(p string) string {
		if mapFrom != "" && strings.HasPrefix(p, mapFrom+"/") {
			return mapTo + p[len(mapFrom):]
		}
		return p
	}
	rewritten := map[string]bool{}
	for _, dir := range flag.Args() {
		abs, err := filepath.Abs(dir)
		if err != nil {
			fatalf("%v", err)
		}
		files := rewritePackage(abs)
		for name, src := range files {
			sum := sha256.Sum256([]byte(abs))
			absOut, _ := filepath.Abs(*out)
			dst := filepath.Join(absOut, fmt.Sprintf("%x", sum[:6]), name)
			writeFile(dst, src)
			replace[key(filepath.Join(abs, name))] = dst
			rewritten[filepath.Join(abs, name)] = true
		}
	}
	plain := map[string]string{}
	if mapFrom != "" {
		// every other non-test Go file of the copy that differs from the original
		filepath.Walk(mapFrom, func(p string, fi os.FileInfo, err error) error {
			if err != nil {
				return nil
			}
			if fi.IsDir() {
				if fi.Name() == ".git" {
					return filepath.SkipDir
				}
				return nil
			}
			if !strings.HasSuffix(p, ".go") || strings.HasSuffix(p, "_test.go") {
				return nil
			}
			a, err1 := os.ReadFile(p)
			b, err2 := os.ReadFile(key(p))
			if err1 == nil && (err2 != nil || !bytes.Equal(a, b)) {
				plain[key(p)] = p
				if !rewritten[p] {
					replace[key(p)] = p
				}
			}
			return nil
		})
	}
	for _, c := range copies {
		parts := strings.SplitN(c, "=", 2)
		if len(parts) != 2 {
			fatalf("bad -copy %q", c)
		}
		copyTree(parts[0], parts[1])
	}
	b, _ := json.MarshalIndent(map[string]any{"Replace": replace}, "", " ")
	writeFile(*overlay, b)
	if *plainOut != "" {
		b, _ := json.MarshalIndent(map[string]any{"Replace": plain}, "", " ")
		writeFile(*plainOut, b)
	}
}

func writeFile(p string, b []byte) {
	if err := os.MkdirAll(filepath.Dir(p), 0o755); err != nil {
		fatalf("%v", err)
	}
	if old, err := os.ReadFile(p); err == nil && bytes.Equal(old, b) {
		return
	}
	if err := os.WriteFile(p, b, 0o644); err != nil {
		fatalf("%v", err)
	}
}

func copyTree(src, dst string) {
	err := filepath.Walk(src, func(p string, fi os.FileInfo, err error) error {
		if err != nil {
			return err
		}
		rel, _ := filepath.Rel(src, p)
		if fi.IsDir() {
			return nil
		}
		if strings.HasSuffix(p, "_test.go") {
			return nil
		}
		if !strings.HasSuffix(p, ".go") {
			b, err := os.ReadFile(p)
			if err != nil {
				return err
			}
			writeFile(filepath.Join(dst, rel), b)
		}
		return nil
	})
	if err != nil {
		fatalf("%v", err)
	}
	// packages: every directory with go files
	dirs := map[string]bool{}
	filepath.Walk(src, func(p string, fi os.FileInfo, err error) error {
		if err == nil && !fi.IsDir() && strings.HasSuffix(p, ".go") && !strings.HasSuffix(p, "_test.go") {
			dirs[filepath.Dir(p)] = true
		}
		return nil
	})
	for d := range dirs {
		rel, _ := filepath.Rel(src, d)
		all := rewritePackageAll(d)
		for name, srcb := range all {
			writeFile(filepath.Join(dst, rel, name), srcb)
		}
	}
}

// rewritePackage returns the rewritten files of a package that differ from the
// originals.
func rewritePackage(dir string) map[string][]byte {
	all, changed := rewrite(dir)
	res := map[string][]byte{}
	for name, src := range all {
		if changed[name] {
			res[name] = src
		}
	}
	return res
}

func rewritePackageAll(dir string) map[string][]byte {
	all, _ := rewrite(dir)
	return all
}

func rewrite(dir string) (map[string][]byte, map[string]bool) {
	ents, err := os.ReadDir(dir)
	if err != nil {
		fatalf("%v", err)
	}
	var files []*ast.File
	var names []string
	for _, e := range ents {
		n := e.Name()
		if e.IsDir() || !strings.HasSuffix(n, ".go") || strings.HasSuffix(n, "_test.go") {
			continue
		}
		f, err := parser.ParseFile(fset, filepath.Join(dir, n), nil, parser.ParseComments)
		if err != nil {
			fatalf("parse: %v", err)
		}
		// keep only the comments before the package clause (build constraints)
		var keep []*ast.CommentGroup
		for _, cg := range f.Comments {
			if cg.End() < f.Package {
				keep = append(keep, cg)
			}
		}
		f.Comments = keep
		f.Doc = nil
		stripDocs(f)
		files = append(files, f)
		names = append(names, n)
	}
	if len(files) == 0 {
		return nil, nil
	}
	info := &types.Info{
		Types:      map[ast.Expr]types.TypeAndValue{},
		Uses:       map[*ast.Ident]types.Object{},
		Defs:       map[*ast.Ident]types.Object{},
		Selections: map[*ast.SelectorExpr]*types.Selection{},
	}
	conf := types.Config{Importer: imp, Error: func(err error) {}}
	oldwd, _ := os.Getwd()
	os.Chdir(dir)
	_, err = conf.Check(files[0].Name.Name, fset, files, info)
	os.Chdir(oldwd)
	if err != nil {
		fatalf("type check of %s: %v", dir, err)
	}
	out := map[string][]byte{}
	changed := map[string]bool{}
	for i, f := range files {
		rw := &rewriter{info: info, file: f}
		rw.run()
		var buf bytes.Buffer
		if err := format.Node(&buf, fset, f); err != nil {
			fatalf("print %s: %v", names[i], err)
		}
		src := buf.Bytes()
		if rw.changed {
			verify(names[i], src)
		}
		out[names[i]] = src
		changed[names[i]] = rw.changed
	}
	return out, changed
}

func stripDocs(f *ast.File) {
	ast.Inspect(f, func(n ast.Node) bool {
		switch x := n.(type) {
		case *ast.GenDecl:
			x.Doc = nil
		case *ast.FuncDecl:
			x.Doc = nil
		case *ast.Field:
			x.Doc, x.Comment = nil, nil
		case *ast.TypeSpec:
			x.Doc, x.Comment = nil, nil
		case *ast.ValueSpec:
			x.Doc, x.Comment = nil, nil
		case *ast.ImportSpec:
			x.Doc, x.Comment = nil, nil
		}
		return true
	})
}

// verify re-parses the output and fails if a native channel operation, go
// statement, select or an un-shimmed import is left.
func verify(name string, src []byte) {
	f, err := parser.ParseFile(token.NewFileSet(), name, src, 0)
	if err != nil {
		fatalf("rewritten %s does not parse: %v\n%s", name, err, src)
	}
	for _, im := range f.Imports {
		p, _ := strconv.Unquote(im.Path.Value)
		if p == "time" || p == "sync" || p == "context" || p == "sync/atomic" {
			fatalf("%s: import %q survived the rewrite", name, p)
		}
	}
	ast.Inspect(f, func(n ast.Node) bool {
		switch x := n.(type) {
		case *ast.SendStmt:
			fatalf("%s: send statement survived the rewrite", name)
		case *ast.SelectStmt:
			fatalf("%s: select survived the rewrite", name)
		case *ast.GoStmt:
			fatalf("%s: go statement survived the rewrite", name)
		case *ast.UnaryExpr:
			if x.Op == token.ARROW {
				fatalf("%s: receive survived the rewrite", name)
			}
		case *ast.CallExpr:
			if id, ok := x.Fun.(*ast.Ident); ok && id.Name == "close" {
				fatalf("%s: close survived the rewrite", name)
			}
			if id, ok := x.Fun.(*ast.Ident); ok && id.Name == "make" && len(x.Args) > 0 {
				if _, ok := x.Args[0].(*ast.ChanType); ok {
					fatalf("%s: make(chan) survived the rewrite", name)
				}
			}
		}
		return true
	})
}

type rewriter struct {
	info    *types.Info
	file    *ast.File
	changed bool
	needVrt bool
	tmp     int
}

func (rw *rewriter) fresh(prefix string) *ast.Ident {
	rw.tmp++
	return ast.NewIdent(fmt.Sprintf("vrt%s%d", prefix, rw.tmp))
}

func (rw *rewriter) vrtSel(name string) ast.Expr {
	rw.needVrt = true
	rw.changed = true
	return &ast.SelectorExpr{X: ast.NewIdent(vrtName), Sel: ast.NewIdent(name)}
}

func (rw *rewriter) call(name string, args ...ast.Expr) *ast.CallExpr {
	return &ast.CallExpr{Fun: rw.vrtSel(name), Args: args}
}

func (rw *rewriter) isChan(e ast.Expr) (bool, types.ChanDir) {
	tv, ok := rw.info.Types[e]
	if !ok || tv.Type == nil {
		return false, 0
	}
	if ch, ok := tv.Type.Underlying().(*types.Chan); ok {
		return true, ch.Dir()
	}
	// type parameter with a channel core type
	if tp, ok := tv.Type.(*types.TypeParam); ok {
		if u, ok := tp.Constraint().Underlying().(*types.Interface); ok && u.NumEmbeddeds() == 1 {
			if ch, ok := u.EmbeddedType(0).Underlying().(*types.Chan); ok {
				return true, ch.Dir()
			}
		}
	}
	return false, 0
}

func (rw *rewriter) isBuiltin(id *ast.Ident, name string) bool {
	if id.Name != name {
		return false
	}
	obj := rw.info.Uses[id]
	if obj == nil {
		return true
	}
	_, ok := obj.(*types.Builtin)
	return ok
}

func (rw *rewriter) run() {
	// imports
	for _, im := range rw.file.Imports {
		p, _ := strconv.Unquote(im.Path.Value)
		var np, base string
		switch p {
		case "time":
			np, base = timePath, "time"
		case "sync":
			np, base = syncPath, "sync"
		case "context":
			np, base = ctxPath, "context"
		case "sync/atomic":
			np, base = atomPath, "atomic"
		default:
			continue
		}
		im.Path.Value = strconv.Quote(np)
		if im.Name == nil {
			im.Name = ast.NewIdent(base)
		}
		rw.changed = true
	}
	if !noNotes {
		rw.noteLoops()
	}
	for _, d := range rw.file.Decls {
		rw.node(reflect.ValueOf(d))
	}
	if rw.needVrt {
		spec := &ast.ImportSpec{Name: ast.NewIdent(vrtName), Path: &ast.BasicLit{Kind: token.STRING, Value: strconv.Quote(vrtPath)}}
		decl := &ast.GenDecl{Tok: token.IMPORT, Specs: []ast.Spec{spec}}
		rw.file.Decls = append([]ast.Decl{decl}, rw.file.Decls...)
		rw.file.Imports = append(rw.file.Imports, spec)
	}
	// imports must stay sorted for printing sanity (not required)
	_ = sort.Strings
}

var (
	exprType = reflect.TypeOf((*ast.Expr)(nil)).Elem()
	stmtType = reflect.TypeOf((*ast.Stmt)(nil)).Elem()
)

// node walks an AST value through reflection, rewriting expressions and
// statements post-order wherever they sit in interface-typed fields or slices.
func (rw *rewriter) node(v reflect.Value) {
	switch v.Kind() {
	case reflect.Interface:
		if v.IsNil() {
			return
		}
		rw.node(v.Elem())
	case reflect.Pointer:
		if v.IsNil() {
			return
		}
		switch v.Interface().(type) {
		case *ast.Object, *ast.Scope, *ast.CommentGroup, *ast.Comment, *ast.Ident, *ast.BasicLit:
			return
		}
		rw.node(v.Elem())
	case reflect.Struct:
		for i := 0; i < v.NumField(); i++ {
			f := v.Field(i)
			ft := f.Type()
			switch {
			case ft == exprType:
				if !f.IsNil() {
					f.Set(reflect.ValueOf(rw.expr(f.Interface().(ast.Expr))))
				}
			case ft == stmtType:
				if !f.IsNil() {
					f.Set(reflect.ValueOf(rw.stmt(f.Interface().(ast.Stmt))))
				}
			case ft.Kind() == reflect.Slice && ft.Elem() == exprType:
				for j := 0; j < f.Len(); j++ {
					e := f.Index(j)
					if !e.IsNil() {
						e.Set(reflect.ValueOf(rw.expr(e.Interface().(ast.Expr))))
					}
				}
			case ft.Kind() == reflect.Slice && ft.Elem() == stmtType:
				for j := 0; j < f.Len(); j++ {
					e := f.Index(j)
					if !e.IsNil() {
						e.Set(reflect.ValueOf(rw.stmt(e.Interface().(ast.Stmt))))
					}
				}
			default:
				rw.node(f)
			}
		}
	case reflect.Slice:
		for j := 0; j < v.Len(); j++ {
			rw.node(v.Index(j))
		}
	}
}

// noteLoops inserts, at the head of the body of every loop, a call
//
//	vrt.NoteLocals(site, parentSite, v1, v2, ...)
//
// with every scalar local variable (parameters, results, loop and range
// variables included) of the innermost enclosing function that is declared
// outside the loop body and referenced inside the loop. The values become part
// of the thread's key: state that a loop carries in its locals from one
// iteration to the next - invisible both to the object hash and to a digest
// that is reset every round - can then not merge two different states.
func (rw *rewriter) noteLoops() {
	var stack []ast.Node
	sites := map[ast.Node]uint64{}
	ast.Inspect(rw.file, func(n ast.Node) bool {
		if n == nil {
			stack = stack[:len(stack)-1]
			return true
		}
		stack = append(stack, n)
		var body *ast.BlockStmt
		switch x := n.(type) {
		case *ast.ForStmt:
			body = x.Body
		case *ast.RangeStmt:
			body = x.Body
		default:
			return true
		}
		// innermost enclosing function and nearest enclosing loop inside it
		var fn ast.Node
		parent := uint64(0)
		overMap := false
		for i := len(stack) - 1; i >= 0 && fn == nil; i-- {
			switch y := stack[i].(type) {
			case *ast.FuncDecl, *ast.FuncLit:
				fn = y
			case *ast.RangeStmt:
				if tv, ok := rw.info.Types[y.X]; ok && tv.Type != nil {
					if _, isMap := tv.Type.Underlying().(*types.Map); isMap {
						overMap = true
					}
				}
				if parent == 0 && i < len(stack)-1 {
					parent = sites[y]
				}
			case *ast.ForStmt:
				if parent == 0 && i < len(stack)-1 {
					parent = sites[y]
				}
			}
		}
		if overMap {
			// the iteration order of a map is not determined: values computed along it
			// are not a function of the state (the code must not depend on them either:
			// replays compare keys and would report any such dependence)
			return true
		}
		if fn == nil || body == nil || !rw.hasSchedulingPoint(body) {
			return true // no call and no channel operation inside: nothing is live across a scheduling point within the loop
		}
		pos := fset.Position(n.Pos())
		site := fnv64(fmt.Sprintf("%s:%d:%d", filepath.Base(pos.Filename), pos.Line, pos.Column))&0xffffffff | 1
		sites[n] = site
		seen := map[*types.Var]bool{}
		var vars []*types.Var
		if rs, ok := n.(*ast.RangeStmt); ok && rs.Tok == token.DEFINE {
			if isCh, _ := rw.isChan(rs.X); isCh {
				// the element variable of a range over a channel is assigned afresh from an
				// observed event at every iteration and dead at the end of the body
				if id, ok := rs.Key.(*ast.Ident); ok {
					if v, ok := rw.info.Defs[id].(*types.Var); ok {
						seen[v] = true
					}
				}
			}
		}
		ast.Inspect(n, func(m ast.Node) bool {
			id, ok := m.(*ast.Ident)
			if !ok || id.Name == "_" {
				return true
			}
			obj := rw.info.Uses[id]
			if obj == nil {
				obj = rw.info.Defs[id]
			}
			v, ok := obj.(*types.Var)
			if !ok || v.IsField() || seen[v] {
				return true
			}
			if v.Pos() < fn.Pos() || v.Pos() >= fn.End() {
				return true // package level or captured from an outer function
			}
			if v.Pos() >= body.Lbrace && v.Pos() < body.Rbrace {
				return true // lives for one iteration only
			}
			if !noteworthy(v.Type(), 0) {
				return true
			}
			seen[v] = true
			vars = append(vars, v)
			return true
		})
		if len(vars) == 0 {
			sites[n] = parent // transparent for the nesting chain
			return true
		}
		sort.Slice(vars, func(i, j int) bool { return vars[i].Pos() < vars[j].Pos() })
		args := []ast.Expr{
			&ast.BasicLit{Kind: token.INT, Value: fmt.Sprint(site)},
			&ast.BasicLit{Kind: token.INT, Value: fmt.Sprint(parent)},
		}
		for _, v := range vars {
			args = append(args, ast.NewIdent(v.Name()))
		}
		if reportNotes {
			names := []string{}
			for _, v := range vars {
				names = append(names, v.Name()+" "+v.Type().String())
			}
			fmt.Fprintf(os.Stderr, "vxform: note %s:%d site=%d parent=%d: %s\n", pos.Filename, pos.Line, site, parent, strings.Join(names, ", "))
		}
		body.List = append([]ast.Stmt{&ast.ExprStmt{X: rw.call("NoteLocals", args...)}}, body.List...)
		return true
	})
}

// hasSchedulingPoint: the block contains a call of a function (not a builtin,
// not a conversion) or a channel operation.
func (rw *rewriter) hasSchedulingPoint(b *ast.BlockStmt) bool {
	found := false
	ast.Inspect(b, func(m ast.Node) bool {
		if found {
			return false
		}
		switch x := m.(type) {
		case *ast.SendStmt, *ast.SelectStmt, *ast.GoStmt:
			found = true
		case *ast.UnaryExpr:
			if x.Op == token.ARROW {
				found = true
			}
		case *ast.RangeStmt:
			if ok, _ := rw.isChan(x.X); ok {
				found = true
			}
		case *ast.CallExpr:
			if tv, ok := rw.info.Types[x.Fun]; ok && tv.IsType() {
				return true // conversion
			}
			if id, ok := unparen(x.Fun).(*ast.Ident); ok {
				if _, isB := rw.info.Uses[id].(*types.Builtin); isB {
					return true
				}
			}
			found = true
		}
		return true
	})
	return found
}

// noteworthy: values whose content is state and can be hashed without following
// pointers: scalars, values of a type parameter (the items), time.Time, and
// arrays, slices and structs of these. Pointers, channels, maps, functions and
// interfaces are not noted (a pointer's target is reachable from the object the
// thread runs on or is not state of the loop).
func noteworthy(t types.Type, depth int) bool {
	if depth > 3 {
		return false
	}
	if _, ok := t.(*types.TypeParam); ok {
		return true
	}
	if n, ok := t.(*types.Named); ok && n.Obj().Pkg() != nil && n.Obj().Pkg().Path() == "time" && n.Obj().Name() == "Time" {
		return true
	}
	switch u := t.Underlying().(type) {
	case *types.Basic:
		return u.Info()&(types.IsBoolean|types.IsNumeric|types.IsString) != 0 && u.Info()&types.IsUntyped == 0
	case *types.Array:
		return noteworthy(u.Elem(), depth+1)
	case *types.Slice:
		return noteworthy(u.Elem(), depth+1)
	case *types.Struct:
		if u.NumFields() == 0 {
			return false
		}
		for i := 0; i < u.NumFields(); i++ {
			if !noteworthy(u.Field(i).Type(), depth+1) {
				return false
			}
		}
		return true
	}
	return false
}

func fnv64(s string) uint64 {
	h := uint64(14695981039346656037)
	for i := 0; i < len(s); i++ {
		h ^= uint64(s[i])
		h *= 1099511628211
	}
	return h
}

var (
	noNotes     = os.Getenv("VXFORM_NONOTES") != ""
	reportNotes = os.Getenv("VXFORM_REPORT") != ""
)

func unparen(e ast.Expr) ast.Expr {
	for {
		p, ok := e.(*ast.ParenExpr)
		if !ok {
			return e
		}
		e = p.X
	}
}

func (rw *rewriter) expr(e ast.Expr) ast.Expr {
	// decisions that need type information of the original children first
	switch x := e.(type) {
	case *ast.CallExpr:
		if id, ok := x.Fun.(*ast.Ident); ok {
			switch {
			case rw.isBuiltin(id, "close") && len(x.Args) == 1:
				arg := rw.expr(x.Args[0])
				return rw.call("Close", arg)
			case rw.isBuiltin(id, "len") && len(x.Args) == 1:
				if is, dir := rw.isChan(x.Args[0]); is {
					arg := rw.expr(x.Args[0])
					if dir == types.SendOnly {
						return rw.call("LenS", arg)
					}
					return rw.call("Len", arg)
				}
			case rw.isBuiltin(id, "make") && len(x.Args) >= 1:
				if tv, ok := rw.info.Types[x.Args[0]]; ok && tv.IsType() {
					if _, isCh := tv.Type.Underlying().(*types.Chan); isCh {
						ct, ok := x.Args[0].(*ast.ChanType)
						if !ok {
							fatalf("%s: make of a named channel type is not supported", fset.Position(x.Pos()))
						}
						var n ast.Expr = &ast.BasicLit{Kind: token.INT, Value: "0"}
						if len(x.Args) > 1 {
							n = &ast.CallExpr{Fun: ast.NewIdent("int"), Args: []ast.Expr{rw.expr(x.Args[1])}}
						}
						rw.node(reflect.ValueOf(ct))
						fun := &ast.IndexExpr{X: rw.vrtSel("MakeChan"), Index: ct.Value}
						return &ast.CallExpr{Fun: fun, Args: []ast.Expr{n}}
					}
				}
			}
		}
	case *ast.UnaryExpr:
		if x.Op == token.ARROW {
			arg := rw.expr(x.X)
			return rw.call("Recv", arg)
		}
	}
	rw.node(reflect.ValueOf(e))
	return e
}

func (rw *rewriter) stmt(s ast.Stmt) ast.Stmt {
	switch x := s.(type) {
	case *ast.SendStmt:
		ch := rw.expr(x.Chan)
		v := rw.expr(x.Value)
		to := rw.call("To", ch)
		return &ast.ExprStmt{X: &ast.CallExpr{Fun: &ast.SelectorExpr{X: to, Sel: ast.NewIdent("Send")}, Args: []ast.Expr{v}}}
	case *ast.AssignStmt:
		// v, ok := <-ch  /  v, ok = <-ch
		if len(x.Lhs) == 2 && len(x.Rhs) == 1 {
			if u, ok := unparen(x.Rhs[0]).(*ast.UnaryExpr); ok && u.Op == token.ARROW {
				for i := range x.Lhs {
					x.Lhs[i] = rw.expr(x.Lhs[i])
				}
				x.Rhs[0] = rw.call("Recv2", rw.expr(u.X))
				return x
			}
		}
	case *ast.DeclStmt:
		// var v, ok = <-ch
		if gd, ok := x.Decl.(*ast.GenDecl); ok && gd.Tok == token.VAR {
			for _, sp := range gd.Specs {
				vs := sp.(*ast.ValueSpec)
				if len(vs.Names) == 2 && len(vs.Values) == 1 {
					if u, ok := unparen(vs.Values[0]).(*ast.UnaryExpr); ok && u.Op == token.ARROW {
						vs.Values[0] = rw.call("Recv2", rw.expr(u.X))
						continue
					}
				}
				rw.node(reflect.ValueOf(vs))
			}
			return x
		}
	case *ast.GoStmt:
		return rw.goStmt(x)
	case *ast.DeferStmt:
		if c, ok := rw.expr(x.Call).(*ast.CallExpr); ok {
			x.Call = c
		}
		return x
	case *ast.SelectStmt:
		return rw.selectStmt(x, nil)
	case *ast.LabeledStmt:
		if sel, ok := x.Stmt.(*ast.SelectStmt); ok {
			return rw.selectStmt(sel, x.Label)
		}
	case *ast.RangeStmt:
		if is, _ := rw.isChan(x.X); is {
			return rw.rangeChan(x)
		}
	}
	rw.node(reflect.ValueOf(s))
	return s
}

func (rw *rewriter) rangeChan(x *ast.RangeStmt) ast.Stmt {
	ch := rw.expr(x.X)
	rw.node(reflect.ValueOf(x.Body))
	r := rw.fresh("r")
	v := rw.fresh("v")
	ok := rw.fresh("ok")
	var pre []ast.Stmt
	var lhsV ast.Expr = v
	if x.Key == nil || isBlank(x.Key) {
		lhsV = ast.NewIdent("_")
	}
	pre = append(pre, &ast.AssignStmt{Lhs: []ast.Expr{lhsV, ok}, Tok: token.DEFINE, Rhs: []ast.Expr{rw.call("Recv2", r)}})
	pre = append(pre, &ast.IfStmt{Cond: &ast.UnaryExpr{Op: token.NOT, X: ok}, Body: &ast.BlockStmt{List: []ast.Stmt{&ast.BranchStmt{Tok: token.BREAK}}}})
	if x.Key != nil && !isBlank(x.Key) {
		pre = append(pre, &ast.AssignStmt{Lhs: []ast.Expr{x.Key}, Tok: x.Tok, Rhs: []ast.Expr{v}})
	}
	body := &ast.BlockStmt{List: append(pre, x.Body.List...)}
	return &ast.ForStmt{Init: &ast.AssignStmt{Lhs: []ast.Expr{r}, Tok: token.DEFINE, Rhs: []ast.Expr{ch}}, Body: body}
}

func isBlank(e ast.Expr) bool {
	id, ok := e.(*ast.Ident)
	return ok && id.Name == "_"
}

func exprString(e ast.Expr) string {
	var buf bytes.Buffer
	format.Node(&buf, token.NewFileSet(), e)
	return buf.String()
}

func (rw *rewriter) goStmt(g *ast.GoStmt) ast.Stmt {
	call := g.Call
	name := exprString(call.Fun)
	if _, isLit := call.Fun.(*ast.FuncLit); isLit {
		name = "func"
	}
	var root ast.Expr = ast.NewIdent("nil")
	var pre []ast.Stmt
	if sel, ok := call.Fun.(*ast.SelectorExpr); ok {
		if s, ok := rw.info.Selections[sel]; ok && s.Kind() == types.MethodVal {
			r := rw.fresh("root")
			pre = append(pre, &ast.AssignStmt{Lhs: []ast.Expr{r}, Tok: token.DEFINE, Rhs: []ast.Expr{rw.expr(sel.X)}})
			sel.X = r
			root = r
			// name: method name only (receiver variable names are irrelevant)
			name = sel.Sel.Name
			if n := namedOf(s.Recv()); n != "" {
				name = n + "." + sel.Sel.Name
			}
		}
	}
	if id, ok := call.Fun.(*ast.Ident); ok {
		if _, isB := rw.info.Uses[id].(*types.Builtin); isB {
			fatalf("%s: go with a builtin is not supported", fset.Position(g.Pos()))
		}
	}
	fn := rw.fresh("f")
	pre = append(pre, &ast.AssignStmt{Lhs: []ast.Expr{fn}, Tok: token.DEFINE, Rhs: []ast.Expr{rw.expr(call.Fun)}})
	var args []ast.Expr
	for _, a := range call.Args {
		if tv, ok := rw.info.Types[a]; ok {
			if _, isTuple := tv.Type.(*types.Tuple); isTuple {
				fatalf("%s: go f(g()) with a multi-value call is not supported", fset.Position(g.Pos()))
			}
		}
		t := rw.fresh("a")
		pre = append(pre, &ast.AssignStmt{Lhs: []ast.Expr{t}, Tok: token.DEFINE, Rhs: []ast.Expr{rw.expr(a)}})
		args = append(args, t)
	}
	inner := &ast.CallExpr{Fun: fn, Args: args, Ellipsis: call.Ellipsis}
	if call.Ellipsis.IsValid() {
		inner.Ellipsis = 1
	}
	lit := &ast.FuncLit{Type: &ast.FuncType{Params: &ast.FieldList{}}, Body: &ast.BlockStmt{List: []ast.Stmt{&ast.ExprStmt{X: inner}}}}
	goCall := rw.call("Go", &ast.BasicLit{Kind: token.STRING, Value: strconv.Quote(name)}, root, lit)
	pre = append(pre, &ast.ExprStmt{X: goCall})
	return &ast.BlockStmt{List: pre}
}

func namedOf(t types.Type) string {
	if p, ok := t.(*types.Pointer); ok {
		t = p.Elem()
	}
	if n, ok := t.(*types.Named); ok {
		return n.Obj().Name()
	}
	return ""
}

func (rw *rewriter) selectStmt(sel *ast.SelectStmt, label *ast.Ident) ast.Stmt {
	var pre []ast.Stmt
	var caseVars []ast.Expr
	var clauses []ast.Stmt
	hasDefault := false
	idx := 0
	for _, cc := range sel.Body.List {
		cl := cc.(*ast.CommClause)
		// bodies first
		for i := range cl.Body {
			cl.Body[i] = rw.stmt(cl.Body[i])
		}
		if cl.Comm == nil {
			hasDefault = true
			clauses = append(clauses, &ast.CaseClause{List: nil, Body: cl.Body})
			continue
		}
		cv := rw.fresh("c")
		var bind ast.Stmt
		switch c := cl.Comm.(type) {
		case *ast.SendStmt:
			ch := rw.expr(c.Chan)
			v := rw.expr(c.Value)
			to := rw.call("To", ch)
			pre = append(pre, &ast.AssignStmt{Lhs: []ast.Expr{cv}, Tok: token.DEFINE, Rhs: []ast.Expr{
				&ast.CallExpr{Fun: &ast.SelectorExpr{X: to, Sel: ast.NewIdent("Case")}, Args: []ast.Expr{v}}}})
		case *ast.ExprStmt:
			u, ok := unparen(c.X).(*ast.UnaryExpr)
			if !ok || u.Op != token.ARROW {
				fatalf("%s: unexpected select case", fset.Position(c.Pos()))
			}
			pre = append(pre, &ast.AssignStmt{Lhs: []ast.Expr{cv}, Tok: token.DEFINE, Rhs: []ast.Expr{rw.call("CaseRecv", rw.expr(u.X))}})
		case *ast.AssignStmt:
			u, ok := unparen(c.Rhs[0]).(*ast.UnaryExpr)
			if !ok || u.Op != token.ARROW {
				fatalf("%s: unexpected select case", fset.Position(c.Pos()))
			}
			pre = append(pre, &ast.AssignStmt{Lhs: []ast.Expr{cv}, Tok: token.DEFINE, Rhs: []ast.Expr{rw.call("CaseRecv", rw.expr(u.X))}})
			rhs := []ast.Expr{&ast.SelectorExpr{X: cv, Sel: ast.NewIdent("V")}}
			if len(c.Lhs) == 2 {
				rhs = append(rhs, &ast.SelectorExpr{X: cv, Sel: ast.NewIdent("OK")})
			}
			lhs := make([]ast.Expr, len(c.Lhs))
			allBlank := true
			for i := range c.Lhs {
				lhs[i] = c.Lhs[i]
				if c.Tok == token.ASSIGN {
					lhs[i] = rw.expr(lhs[i])
				}
				if !isBlank(lhs[i]) {
					allBlank = false
				}
			}
			if !allBlank {
				bind = &ast.AssignStmt{Lhs: lhs, Tok: c.Tok, Rhs: rhs}
			}
		default:
			fatalf("%s: unexpected select case", fset.Position(cl.Pos()))
		}
		caseVars = append(caseVars, cv)
		body := cl.Body
		if bind != nil {
			body = append([]ast.Stmt{bind}, body...)
		}
		clauses = append(clauses, &ast.CaseClause{List: []ast.Expr{&ast.BasicLit{Kind: token.INT, Value: strconv.Itoa(idx)}}, Body: body})
		idx++
	}
	hd := "false"
	if hasDefault {
		hd = "true"
	}
	args := append([]ast.Expr{ast.NewIdent(hd)}, caseVars...)
	var sw ast.Stmt = &ast.SwitchStmt{Tag: rw.call("Select", args...), Body: &ast.BlockStmt{List: clauses}}
	if label != nil {
		sw = &ast.LabeledStmt{Label: label, Stmt: sw}
	}
	rw.changed = true
	rw.needVrt = true
	return &ast.BlockStmt{List: append(pre, sw)}
}
