#!/bin/bash
# tools/seedtest.sh <patch.diff> <prop> [<prop>...]: apply a seeded change to /repo, run the quick checks, undo it
P=$1; shift
git -C /repo apply "$P" || { echo "patch does not apply"; exit 2; }
for prop in "$@"; do
  out=$(cd /verif && timeout 900 ./check $prop quick 2>&1); rc=$?
  echo "== $(basename $(dirname $P)) $prop: exit=$rc violations=$(echo "$out" | grep -c '^VIOLATION')"
  echo "$out" | grep -A1 '^VIOLATION' | grep -v '^VIOLATION' | grep -v '^--' | head -2 | cut -c1-260
  [ $rc = 2 ] && echo "$out" | tail -5 | cut -c1-300
done
git -C /repo checkout -- .
