#!/bin/bash
# tools/seedtest.sh <patch.diff> <prop> [<prop>...]
# Applies a seeded change to a scratch worktree of /repo (never to /repo itself), builds the
# checkers against that copy through the overlay (VERIF_REPO), runs the quick checks, removes the copy.
P=$(readlink -f "$1"); shift
V=$(cd "$(dirname "$0")/.." && pwd)
S=$(mktemp -d /tmp/seedrepo.XXXXXX); rmdir $S
git -C /repo worktree add -q --detach $S HEAD || exit 2
trap 'git -C /repo worktree remove --force $S 2>/dev/null; rm -rf /tmp/seedbuild.$$ /tmp/seedout.$$' EXIT
git -C $S apply "$P" || { echo "patch does not apply"; exit 2; }
export VERIF_REPO=$S VERIF_BUILD=/tmp/seedbuild.$$ VERIF_OUT=/tmp/seedout.$$
for prop in "$@"; do
  out=$(cd $V && timeout 1800 ./check $prop ${TIER:-quick} 2>&1); rc=$?
  echo "== $(basename $(dirname $P)) $prop: exit=$rc violations=$(echo "$out" | grep -c '^VIOLATION')"
  echo "$out" | grep -A1 '^VIOLATION' | grep -v '^VIOLATION' | grep -v '^--' | head -2 | cut -c1-260
  [ $rc = 2 ] && echo "$out" | tail -5 | cut -c1-300
done
