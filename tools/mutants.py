#!/usr/bin/env python3
"""Applies each hand-written property-breaking edit to a scratch worktree of /repo
(never to /repo itself), runs the named checks (quick tier) against that copy
through the overlay (VERIF_REPO), records verdicts. Usage:
   tools/mutants.py [name ...]      (default: all)
Results are appended to /verif/.build/mutants.log"""
import subprocess, sys, json, time, os

M = {
 'M01_C10_passAt_reset_in_process': ('v2/join/join.go', "func (dsc *Discipline[Type]) process(item Type) {\n", "func (dsc *Discipline[Type]) process(item Type) {\n\tdsc.resetPassAt()\n", ['C10']),
 'M02_C04_delay_skips_when_half': ('v2/limit/limit.go', "\tremainder := dsc.opts.Limit.Interval - duration\n", "\tremainder := dsc.opts.Limit.Interval - duration\n\tif duration >= dsc.opts.Limit.Interval/2 {\n\t\treturn\n\t}\n", ['C04']),
 'M03_C15_safeDivide_only_over': ('v2/priority/assist.go', "\tif after-before != dividend {", "\tif after-before > dividend {", ['C15']),
 'M04_C06_vacants_le_1': ('v2/priority/priority.go', "\tif vacants == 0 {\n\t\treturn false, nil\n\t}\n\n\tif picked := dsc.calcTacticByAddUpToStrategic(vacants); picked {", "\tif vacants <= 1 {\n\t\treturn false, nil\n\t}\n\n\tif picked := dsc.calcTacticByAddUpToStrategic(vacants); picked {", ['C06']),
 'M05_C01_v1_picked_ge_vacants': ('priority/priority.go', "\treturn picked == vacants\n", "\treturn picked >= vacants\n", ['C01','C17']),
 'M07_C05_uncrowded_le': ('v2/priority/priority.go', "\t\tif dsc.actual[priority] < dsc.strategic[priority] {\n\t\t\tdsc.uncrowded", "\t\tif dsc.actual[priority] <= dsc.strategic[priority] {\n\t\t\tdsc.uncrowded", ['C05','C01']),
 'M08_C07_any_drained': ('v2/priority/priority.go', "\tfor _, input := range dsc.inputs {\n\t\tif !input.Drained {\n\t\t\treturn false\n\t\t}\n\t}\n\n\treturn true", "\tfor _, input := range dsc.inputs {\n\t\tif input.Drained {\n\t\t\treturn true\n\t\t}\n\t}\n\n\treturn false", ['C07','C02']),
 'M09_C08_no_clone_when_full': ('v2/join/join.go', "\tif dsc.opts.NoCopy {\n\t\treturn item\n\t}\n\n\treturn slices.Clone(item)", "\tif dsc.opts.NoCopy || uint(len(item)) == dsc.opts.JoinSize {\n\t\treturn item\n\t}\n\n\treturn slices.Clone(item)", ['C08','C20']),
 'M10_C09_half_timeout': ('v2/join/join.go', "\treturn time.Since(dsc.passAt) >= dsc.opts.Timeout\n", "\treturn time.Since(dsc.passAt) >= dsc.opts.Timeout/2\n", ['C09']),
 'M11_C11_split_fit': ('v2/join/unite/unite.go', "\tif uint(len(item))+uint(len(dsc.join)) > dsc.opts.JoinSize {\n\t\tdsc.pass()\n\t}\n", "\tif uint(len(item))+uint(len(dsc.join)) > dsc.opts.JoinSize {\n\t\tfit := dsc.opts.JoinSize - uint(len(dsc.join))\n\t\tdsc.join = append(dsc.join, item[:fit]...)\n\t\titem = item[fit:]\n\t\tdsc.pass()\n\t}\n", ['C11']),
 'M12_C12_full_delay': ('v2/limit/limit.go', "\tremainder := dsc.opts.Limit.Interval - duration\n", "\tremainder := dsc.opts.Limit.Interval\n\t_ = duration\n", ['C12']),
 'M13_C03_drop_on_tick': ('v2/join/join.go', "\t\t\tif dsc.isTimeouted() {\n\t\t\t\tdsc.pass()\n\t\t\t}", "\t\t\tif dsc.isTimeouted() {\n\t\t\t\tif len(dsc.output) == cap(dsc.output) {\n\t\t\t\t\tdsc.resetJoin()\n\t\t\t\t\tdsc.resetPassAt()\n\t\t\t\t} else {\n\t\t\t\t\tdsc.pass()\n\t\t\t\t}\n\t\t\t}", ['C03']),
 'M14_C16_unfix_D3': ('priority/priority.go', "\t\tif dsc.isRoughlyStopped() {\n\t\t\tdsc.resetTactic()\n\t\t\treturn nil\n\t\t}\n", "", ['C16']),
 'M15_C17_remove_forgets_actual': ('priority/priority.go', "\tdelete(dsc.inputs, priority)\n\tdelete(dsc.tactic, priority)\n", "\tdelete(dsc.inputs, priority)\n\tdelete(dsc.tactic, priority)\n\tdelete(dsc.actual, priority)\n", ['C17','C01']),
 'M16_C19_v1simple_no_wait': ('priority/simple.go', "\tdefer smpl.wg.Wait()\n", "", ['C19','C16']),
 'M17_C02_drop_item_on_close_round': ('v2/priority/priority.go', "\t\t\tprocessed += dsc.send(item, priority)\n\t\tdefault:\n\t\t\treturn processed", "\t\t\tif len(dsc.inputs[priority].Channel) == 0 && dsc.tactic[priority] == 1 {\n\t\t\t\tdsc.decreaseTactic(priority)\n\t\t\t\tcontinue\n\t\t\t}\n\n\t\t\tprocessed += dsc.send(item, priority)\n\t\tdefault:\n\t\t\treturn processed", ['C02']),
 'M18_C13_swapped': ('v2/limit/rate.go', "\tquotient := new(big.Int).Quo(product, ib)\n", "\tquotient := new(big.Int).Quo(product, ib)\n\tif quotient.Sign() == 0 {\n\t\tquotient.SetInt64(1)\n\t}\n\tif mb.Cmp(ib) == 0 {\n\t\tquotient.Add(quotient, big.NewInt(1))\n\t}\n", ['C13']),
 'M19_C14_rate_leftover_to_last': ('v2/priority/divider/divider.go', "\tdistribution[priorities[0]] += remainder\n", "\tdistribution[priorities[len(priorities)-1]] += remainder\n", ['C14']),
 'M21_C03_join2_lazy_start_check_then_act': ([
    ('v2/join/join.go', 'import (\n', 'import (\n\t"sync/atomic"\n'),
    ('v2/join/join.go', "\tgo dsc.main()\n\n\treturn dsc, nil\n", "\treturn dsc, nil\n"),
    ('v2/join/join.go', "func (dsc *Discipline[Type]) Output() <-chan []Type {\n\treturn dsc.output\n", "func (dsc *Discipline[Type]) Output() <-chan []Type {\n\tif !dsc.started.Load() {\n\t\tdsc.started.Store(true)\n\n\t\tgo dsc.main()\n\t}\n\n\treturn dsc.output\n"),
    ('v2/join/join.go', "\toutput            chan []Type\n", "\toutput            chan []Type\n\tstarted           atomic.Bool\n"),
  ], None, None, ['C03']),
 'M22_C02_prio2_lazy_start_check_then_act': ([
    ('v2/priority/priority.go', 'import (\n', 'import (\n\t"sync/atomic"\n'),
    ('v2/priority/priority.go', "\tgo dsc.main()\n", ""),
    ('v2/priority/priority.go', "func (dsc *Discipline[Type]) Output() <-chan types.Prioritized[Type] {\n\treturn dsc.output\n", "func (dsc *Discipline[Type]) Output() <-chan types.Prioritized[Type] {\n\tif !dsc.started.Load() {\n\t\tdsc.started.Store(true)\n\n\t\tgo dsc.main()\n\t}\n\n\treturn dsc.output\n"),
    ('v2/priority/priority.go', "\toutput   chan types.Prioritized[Type]\n", "\toutput   chan types.Prioritized[Type]\n\tstarted  atomic.Bool\n"),
  ], None, None, ['C02','C01']),
 'M23_C18_spins_for_quantity_77': ('v2/priority/utils/utils.go', "\tquantity uint,\n) bool {\n\tpriorities = createSortedCopy(priorities)\n", "\tquantity uint,\n) bool {\n\tfor quantity == 77 && len(priorities) == 3 {\n\t}\n\n\tpriorities = createSortedCopy(priorities)\n", ['C18']),
 'M24_C13_panics_on_a_sliver': ('v2/limit/rate.go', "\tquotient := new(big.Int).Quo(product, ib)\n", "\tquotient := new(big.Int).Quo(product, ib)\n\tif quotient.BitLen() == 64 && mb.Cmp(ib) > 0 {\n\t\tpanic(\"quantity overflow\")\n\t}\n", ['C13']),
 'M20_C18_pickup_off_by_one': ('v2/priority/utils/utils.go', "\tfor quantity := maxQuantity; quantity != 0; quantity-- {\n\t\tif isNonFatalConfig(combinations, divider, quantity) {", "\tfor quantity := maxQuantity - 1; quantity != 0 && maxQuantity != 0; quantity-- {\n\t\tif isNonFatalConfig(combinations, divider, quantity) {", ['C18']),
}

def sh(cmd, timeout=1800, env=None):
    p=subprocess.run(cmd,shell=True,capture_output=True,text=True,timeout=timeout,env=env)
    return p.returncode,p.stdout,p.stderr

names=sys.argv[1:] or sorted(M)
os.makedirs('/verif/.build',exist_ok=True)
log=open('/verif/.build/mutants.log','a')
S=f'/tmp/mutrepo.{os.getpid()}'
sh(f'git -C /repo worktree add -q --detach {S} HEAD')
env=dict(os.environ, VERIF_REPO=S, VERIF_BUILD=f'/tmp/mutbuild.{os.getpid()}', VERIF_OUT=f'/tmp/mutout.{os.getpid()}')
try:
    for n in names:
        f,old,new,props=M[n]
        edits=f if isinstance(f,list) else [(f,old,new)]
        bad=False
        for (f,old,new) in edits:
            s=open(S+'/'+f).read()
            if s.count(old)!=1:
                print(n,'PATTERN NOT FOUND/AMBIGUOUS',s.count(old),repr(old[:40])); bad=True; break
            open(S+'/'+f,'w').write(s.replace(old,new))
        if bad:
            sh(f'git -C {S} checkout -q -- .'); continue
        try:
            for p in props:
                t=time.time()
                rc,out,err=sh(f'cd /verif && ./check {p} quick',env=env)
                viol=[l for l in out.splitlines() if l.startswith('VIOLATION')]
                msg=''
                ls=out.splitlines()
                for i,l in enumerate(ls):
                    if l.startswith('VIOLATION') and i+1<len(ls): msg=ls[i+1].strip()[:200]; break
                line=f'{n} {p}: exit={rc} violations={len(viol)} {time.time()-t:.0f}s {msg}'
                if rc==2: line+=' STDERR '+err[-300:].replace('\n',' | ')
                print(line,flush=True); log.write(line+'\n'); log.flush()
        finally:
            sh(f'git -C {S} checkout -- .')
finally:
    sh(f'git -C /repo worktree remove --force {S}')
    sh(f"rm -rf /tmp/mutbuild.{os.getpid()} /tmp/mutout.{os.getpid()}")
print('done')
