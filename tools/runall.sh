#!/bin/bash
# tools/runall.sh <quick|thorough> [ids...]: run checks sequentially, one summary line each
T=${1:-quick}; shift
IDS=${@:-C01 C02 C03 C04 C05 C06 C07 C08 C09 C10 C11 C12 C13 C14 C15 C16 C17 C18 C19 C20}
cd "$(dirname "$0")/.."
for id in $IDS; do
  s=$(date +%s); out=$(./check $id $T 2>&1); rc=$?
  echo "$id rc=$rc $(( $(date +%s)-s ))s :: $(echo "$out" | tail -1 | cut -c1-200)"
  echo "$out" | grep '^VIOLATION\|^KNOWN\|INFRA' | head -5 | cut -c1-300
done
