#!/bin/bash
# tools/confirm_seed.sh <ID> <demo-dir-relative-to-worktree> <go test -run pattern> <module: . or v2>
# Independently confirms a seeded change in its scratch worktree /tmp/wt-<ID>:
#   demo fails with the change, existing tests of both modules pass with it, demo passes without it.
# Writes /verif/seeded/<ID>/{patch.diff,demo,notes.md,confirm.log}
ID=$1; DEMODIR=$2; PAT=$3; MOD=$4
WT=/tmp/wt-$ID; OUT=/verif/seeded/$ID
export GOFLAGS=-mod=mod GOPROXY=off GOSUMDB=off GOTOOLCHAIN=local
mkdir -p $OUT; : > $OUT/confirm.log
log() { echo "$@" | tee -a $OUT/confirm.log; }
cd $WT || exit 2
git diff > /tmp/seed-$ID.diff
[ -s /tmp/seed-$ID.diff ] || { log "no change in worktree"; exit 2; }
DEMOS=$(git status --porcelain | grep '^??' | awk '{print $2}' | grep '_test.go$')
log "change: $(git diff --stat | tail -1)"; log "demo files: $DEMOS"
run_demo() { (cd $WT/$MOD && timeout 900 go test $DEMOFLAGS -vet=off -count=1 -run "$PAT" ./${DEMODIR#$MOD/}/ 2>&1 | tail -3); }
log "--- demo WITH change (expect FAIL)"; R1=$(run_demo); log "$R1"
mkdir -p /tmp/seed-demo-$ID; for d in $DEMOS; do mv $WT/$d /tmp/seed-demo-$ID/; done
log "--- existing tests WITH change (expect ok)"
T1=$(cd $WT && timeout 1500 go test -vet=off -count=1 -timeout 25m ./... 2>&1 | grep -v '^ok\|no test files' | tail -5); log "v1: ${T1:-all ok}"
T2=$(cd $WT/v2 && timeout 1500 go test -vet=off -count=1 -timeout 25m ./... 2>&1 | grep -v '^ok\|no test files' | tail -5); log "v2: ${T2:-all ok}"
git checkout -q -- .
for d in $DEMOS; do cp /tmp/seed-demo-$ID/$(basename $d) $WT/$d; done
log "--- demo WITHOUT change (expect ok)"; R2=$(run_demo); log "$R2"
cp /tmp/seed-$ID.diff $OUT/patch.diff
for d in $DEMOS; do cp /tmp/seed-demo-$ID/$(basename $d) $OUT/; done
[ -f /tmp/seed-out/$ID/notes.md ] && cp /tmp/seed-out/$ID/notes.md $OUT/notes.md
OK=yes
echo "$R1" | grep -q '^FAIL\|FAIL' || OK=no
[ -z "$T1" ] && [ -z "$T2" ] || OK=no
echo "$R2" | grep -q '^ok' || OK=no
log "CONFIRMED=$OK"
rm -rf /tmp/seed-demo-$ID /tmp/seed-$ID.diff
