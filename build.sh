#!/bin/bash
# Rebuilds the model checker from /repo's current working tree:
#   vxform (source rewriter) -> overlay -> cqmc built through the overlay.
# Usage: build.sh [race]
set -e
export GOFLAGS=-mod=mod GOPROXY=off GOSUMDB=off GOTOOLCHAIN=local
V=$(cd "$(dirname "$0")" && pwd)
B=${VERIF_BUILD:-$V/.build}
R=${VERIF_REPO:-/repo}
MAP=""
[ "$R" != /repo ] && MAP="-map $R=/repo"
mkdir -p $B/bin
exec 9>$B/lock
flock 9
cd $V/mc
go build -o $B/bin/vxform ./cmd/vxform
BRK=$(go env GOMODCACHE)/github.com/akramarenkov/breaker@v0.1.0
rm -rf $B/gen.new
$B/bin/vxform $MAP -out $B/gen.new -overlay $B/overlay.json.new -plain $B/overlay.plain.json -copy $BRK=$B/breaker \
  $R/join $R/priority $R/v2/join $R/v2/join/unite $R/v2/limit $R/v2/priority $R/v2/priority/simple
rm -rf $B/gen && mv $B/gen.new $B/gen && sed 's|/gen.new/|/gen/|' $B/overlay.json.new > $B/overlay.json && rm $B/overlay.json.new
if [ "$1" = race ]; then
  go build -race -overlay $B/overlay.json -tags verif -o $B/bin/cqmc-race ./cmd/cqmc
else
  go build -overlay $B/overlay.json -tags verif -o $B/bin/cqmc ./cmd/cqmc
  go build -overlay $B/overlay.plain.json -o $B/bin/cqpure ./cmd/cqpure
fi
