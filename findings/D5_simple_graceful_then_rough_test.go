package priority_test

import (
	"context"
	"testing"
	"time"

	"github.com/akramarenkov/cqos/priority"
)

// A graceful stop is pending (an input is still open); then the context is cancelled.
func TestD5GracefulThenCancel(t *testing.T) {
	ctx, cancel := context.WithCancel(context.Background())
	defer cancel()

	in := make(chan int, 1) // never closed
	handle := func(ctx context.Context, item int) { <-ctx.Done() }

	s, err := priority.NewSimple(priority.SimpleOpts[int]{Ctx: ctx, Divider: priority.FairDivider, Handle: handle, HandlersQuantity: 1, Inputs: map[uint]<-chan int{1: in}})
	if err != nil {
		t.Fatal(err)
	}

	in <- 1

	go s.GracefulStop()
	time.Sleep(100 * time.Millisecond)
	cancel()

	select {
	case <-s.Err():
	case <-time.After(3 * time.Second):
		t.Fatal("the context was cancelled 3 s ago but the discipline has not terminated: cancellation has no effect while a graceful stop is pending")
	}
}

// A graceful stop is pending (an input is still open); then Stop() is called.
func TestD5GracefulThenStop(t *testing.T) {
	in := make(chan int, 1) // never closed
	handle := func(ctx context.Context, item int) {}

	s, err := priority.NewSimple(priority.SimpleOpts[int]{Divider: priority.FairDivider, Handle: handle, HandlersQuantity: 1, Inputs: map[uint]<-chan int{1: in}})
	if err != nil {
		t.Fatal(err)
	}

	in <- 1

	go s.GracefulStop()
	time.Sleep(100 * time.Millisecond)

	done := make(chan struct{})
	go func() { s.Stop(); close(done) }()

	select {
	case <-done:
	case <-time.After(3 * time.Second):
		t.Fatal("Stop() has not returned after 3 s while a graceful stop is pending")
	}
}
