#!/bin/bash
# Builds the framework from files on disk only (offline) and warms the Go build cache.
set -e
export GOFLAGS=-mod=mod GOPROXY=off GOSUMDB=off GOTOOLCHAIN=local
cd "$(dirname "$0")"
./build.sh
./build.sh race
(cd mc && go test ./vrt/ -run Conform -count=1)
echo "setup ok"
