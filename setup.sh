#!/bin/bash
# placeholder, replaced when the framework lands
exit 0
